"""Per-property plans for bin/check: bounded model-checking instances, behaviour generators,
clause sets, counting rules.  Constants refer to spec/MC_Sys.tla."""
import json, re, os

ASSUMPTIONS = [
    "bounded: design results hold for the listed finite instances, implementation results for the replayed executions",
    "prices/weights/rates on the grid k/D (exact LegacyDec arithmetic for grid values, DESIGN.md 3.3); amounts small enough for TLC's 32-bit integers",
    "trusted base: TLC, the Cosmos SDK as linked (x/bank, x/distribution, collections, baseapp router), harness projection code",
    "keeper adapter emulates the transaction boundary (ValidateBasic, handler on a cache branch written only on success)",
    "at most 12 bids per auction (Go's sort.Slice is a stable insertion sort up to 12 elements)",
]

U3 = ("<-", "Users3")
U4 = ("<-", "Users4")

BASE_CONSTS = {
    "UserSeq": U3, "NA": 2, "D": 2, "Dev": set(),
    "Inputs": ("<-", "MCInputs"), "Bal0": ("<-", "MCBal0"), "Params0": ("<-", "MCParams0"),
    "NL": 0, "RejectSample": 0, "KeepHist": False, "GenDepth": 0, "GenDir": ".", "KindBag": ("<-", "BagDefault"),
    "Tmax": 7, "Jump": 2, "MaxAuc": 1, "CreateUntil": 1, "StartOffsets": {1}, "Dur": 2, "Templates": {"B1"}, "Bidders": {"u2", "u3"},
    "Prices": {1, 2}, "Amts": {1, 3}, "CapSet": {5}, "MaxBids": 2, "MaxMods": 1, "MaxDon": 0,
    "WithInvalid": False, "WithGenesis": False, "HookVariants": False, "Faults": {0}, "WithQueries": False, "WithParams": False,
    "Goals": set(), "BidKinds": {"W", "M"},
}


def mc(name, **consts):
    extra = {}
    for k in ("workers", "heap", "timeout", "coverage", "properties", "module", "tc_max"):
        if k in consts:
            extra[k] = consts.pop(k)
    d = {"name": name, "consts": consts}
    d.update(extra)
    return d


def gen(name, num, depth, **consts):
    d = {"name": name, "num": num, "depth": depth, "consts": consts}
    if "module" in consts:
        d["module"] = consts.pop("module")
    return d


# ---- bounded instances (sizes measured; see evidence/*.json "design") ----------------------
MC_BATCH_Q = mc("MC_Batch_q", Templates={"B1"}, Prices={1, 2}, Amts={1, 3}, MaxBids=2, Tmax=7)
MC_FIXED_Q = mc("MC_Fixed_q", Templates={"F1"}, Amts={1, 2, 4}, MaxBids=2, Tmax=7, CapSet={3, 5})
MC_FIXED_T = mc("MC_Fixed_t", Templates={"F1"}, Amts={1, 2, 4}, MaxBids=3, Tmax=7, CapSet={3, 5}, timeout=1800)
MC_LIFE_Q = mc("MC_Life_q", D=4, Templates={"Fl", "Bl"}, MaxAuc=1, Amts={2}, Prices={4}, MaxBids=1, Tmax=10, Jump=3, CapSet={5},
               CreateUntil=2, StartOffsets={0, 1}, WithInvalid=False)
MC_LIFE2_Q = mc("MC_Life2_q", D=4, Templates={"Fl", "Bl"}, MaxAuc=2, Amts={2}, Prices={4}, MaxBids=0, Tmax=9, Jump=3, CapSet={5},
                CreateUntil=1, StartOffsets={0, 1}, WithInvalid=False)
MC_INVALID_Q = mc("MC_Invalid_q", Templates={"B0"}, Amts={1}, Prices={2}, MaxBids=2, Tmax=4, Jump=3, CapSet={1, 5}, WithInvalid=True,
                  CreateUntil=1)
MC_INVALID1_Q = mc("MC_Invalid1_q", Templates={"B0"}, Amts={1}, Prices={2}, MaxBids=1, Tmax=4, Jump=3, CapSet={1, 5}, WithInvalid=True,
                   CreateUntil=1)
MC_INVALIDF_Q = mc("MC_InvalidF_q", Templates={"F0"}, Amts={1}, Prices={2}, MaxBids=2, Tmax=4, Jump=3, CapSet={1, 5}, WithInvalid=True)
MC_GENESIS_Q = mc("MC_Genesis_q", Templates={"B1", "F1"}, MaxAuc=2, Amts={2}, Prices={2}, MaxBids=1, Tmax=6, Jump=2, WithGenesis=True,
                  Dev={"genesis_drops_lastMatched"} - {"genesis_drops_lastMatched"})
MC_MULTI_Q = mc("MC_Multi_q", Templates={"B0", "F0"}, MaxAuc=2, Amts={2}, Prices={2}, MaxBids=1, Tmax=4, Jump=2)

TC_EXT_Q = mc("TC_Ext_q", Templates={"B5"}, Prices={1, 2}, Amts={2}, MaxBids=3, Tmax=5, Jump=1, CapSet={2, 4}, StartOffsets={0},
              CreateUntil=0, Dur=2, MaxMods=1, Bidders={"u2"})
# two bidders whose joint demand at the top price can exceed the supply (a round in which nothing matches after a round with matches)
TC_EXT2_Q = mc("TC_Ext2_q", Templates={"B5"}, Prices={1, 2}, Amts={3}, MaxBids=3, Tmax=5, Jump=1, CapSet={4}, StartOffsets={0},
               CreateUntil=0, Dur=2, MaxMods=1, Bidders={"u2", "u3"}, tc_max=3000)
# goal-directed transition coverage (Goals # {}): large instances of which only the transitions showing a named situation are replayed
TG_EXT_Q = mc("TG_Ext_q", Templates={"B5"}, Prices={1, 2, 3}, Amts={1, 3}, MaxBids=4, Tmax=3, Jump=1, CapSet={4}, StartOffsets={0},
              CreateUntil=0, Dur=2, MaxMods=0, Bidders={"u2", "u3"}, BidKinds={"M"},
              Goals={"rematch_after_empty_round", "empty_round_after_match", "rate_boundary"}, tc_max=2000)
TG_MULTI_Q = mc("TG_Multi_q", Templates={"F0", "B0"}, MaxAuc=2, Amts={2}, Prices={2}, MaxBids=2, Tmax=3, Jump=2, CapSet={3, 5}, StartOffsets={0},
                CreateUntil=1, Bidders={"u2"}, BidKinds={"M"}, Goals={"cap_with_other_auction", "two_settle_in_block"}, tc_max=1500)
TG_NEARF_Q = mc("TG_NearF_q", WithInvalid=True, Templates={"F0"}, Amts={1, 3}, MaxBids=2, Tmax=4, Jump=2, CapSet={3}, StartOffsets={1},
                CreateUntil=0, Bidders={"u2"}, Goals={"near_miss"}, tc_max=1500)
TG_NEARB_Q = mc("TG_NearB_q", WithInvalid=True, Templates={"B0"}, Prices={1, 2}, Amts={1, 3}, MaxBids=2, Tmax=4, Jump=2, CapSet={3}, StartOffsets={1},
                CreateUntil=0, Bidders={"u2"}, Goals={"near_miss"}, tc_max=1500)
TG_SOLDOUT_Q = mc("TG_SoldOut_q", Templates={"F4"}, Amts={1, 2, 3}, MaxBids=3, Tmax=3, Jump=2, CapSet={2}, StartOffsets={0}, CreateUntil=0,
                  Bidders={"u2", "u3"}, Goals={"bid_on_sold_out", "exact_remaining"}, tc_max=1500)
TG_SOLD0_Q = mc("TG_Sold0_q", Templates={"B6"}, Prices={1, 3}, Amts={1, 3}, MaxBids=3, Tmax=2, Jump=1, CapSet={4}, StartOffsets={0}, CreateUntil=0,
                Dur=2, MaxMods=0, Bidders={"u2", "u3"}, Goals={"nothing_sold_early_settle"}, tc_max=1500)
TG_SURPLUS_Q = mc("TG_Surplus_q", Templates={"B0"}, Prices={1, 2}, Amts={5, 6}, MaxBids=2, Tmax=3, Jump=2, CapSet={10}, StartOffsets={0}, CreateUntil=0,
                  MaxMods=0, MaxDon=2, BidKinds={"M"}, Bidders={"u2", "u3"}, Goals={"overdemand_with_surplus"}, tc_max=1500)
TG_CLOSED_Q = mc("TG_Closed_q", WithInvalid=True, Templates={"B4", "F2"}, MaxAuc=1, Prices={1, 2}, Amts={1, 3}, MaxBids=1, Tmax=6, Jump=3, CapSet={5},
                 StartOffsets={0, 1}, CreateUntil=0, Bidders={"u2"}, Goals={"closed_auction_op"}, tc_max=1500)
TG_DUST_Q = mc("TG_Dust_q", Templates={"F1"}, Amts={1, 2}, MaxBids=3, Tmax=3, Jump=2, CapSet={5}, StartOffsets={0}, CreateUntil=0,
               Bidders={"u2", "u3"}, Goals={"settle_fixed_after_dust_bid"}, tc_max=1500)
TC_FIXEDI_Q = mc("TC_FixedI_q", WithInvalid=True, RejectSample=10, Templates={"F1"}, Amts={1, 3}, MaxBids=1, Tmax=5, Jump=3, CapSet={5}, StartOffsets={0},
                 CreateUntil=0, Bidders={"u2"})
TC_FIXED_Q = mc("TC_Fixed_q", Templates={"F1", "F3"}, Amts={1, 2, 3}, MaxBids=2, Tmax=7, Jump=2, CapSet={3, 5}, StartOffsets={0, 1}, CreateUntil=1)
TC_BATCH_Q = mc("TC_Batch_q", Templates={"B1"}, Prices={1, 2}, Amts={1, 3}, MaxBids=2, Tmax=8, Jump=2, StartOffsets={0, 1}, CreateUntil=1)
TC_MODIFY_Q = mc("TC_Modify_q", RejectSample=40, Templates={"B0"}, Prices={1, 2, 3}, Amts={1, 3}, MaxBids=2, Tmax=3, Jump=2, StartOffsets={0}, CreateUntil=0,
                 WithInvalid=True, Bidders={"u2"}, CapSet={5})
TC_CANCEL_Q = mc("TC_Cancel_q", Templates={"F0", "B0"}, MaxAuc=1, Amts={1}, Prices={2}, MaxBids=1, Tmax=3, Jump=2, CapSet={5}, MaxDon=2,
                 StartOffsets={1, 2}, CreateUntil=1, WithInvalid=False)
TC_MULTI_Q = mc("TC_Multi_q", Templates={"F0"}, MaxAuc=2, Amts={2}, Prices={2}, MaxBids=2, Tmax=3, Jump=2, CapSet={3, 5}, StartOffsets={0},
                CreateUntil=1, Bidders={"u2"})
TC_MULTIB_Q = mc("TC_MultiB_q", Templates={"B0"}, MaxAuc=2, Amts={2, 3}, Prices={2}, MaxBids=2, Tmax=4, Jump=3, CapSet={2, 5}, StartOffsets={0},
                 CreateUntil=1, Bidders={"u2"})
TC_LIFE_Q = mc("TC_Life_q", D=4, Templates={"Fl", "Bl"}, MaxAuc=1, Amts={2}, Prices={4}, MaxBids=1, Tmax=10, Jump=3, CapSet={5},
               CreateUntil=2, StartOffsets={0, 1})
TC_LIFE2_Q = mc("TC_Life2_q", D=4, Templates={"Fl", "Bl"}, MaxAuc=2, Amts={2}, Prices={4}, MaxBids=0, Tmax=9, Jump=3, CapSet={5},
                CreateUntil=1, StartOffsets={0, 1})
TC_GENESIS_Q = mc("TC_Genesis_q", Templates={"B1", "F1"}, MaxAuc=2, Amts={2}, Prices={2}, MaxBids=1, Tmax=6, Jump=2, WithGenesis=True)
GEN_GENERAL = [
    gen("sysA", 110, 40, Templates={"B0", "B1", "B2", "F0", "F1", "F3"}, MaxAuc=2, Prices={1, 2, 3}, Amts={1, 2, 3, 5, 8},
        CapSet={3, 5, 10}, MaxBids=6, MaxDon=2, Tmax=24, Jump=3, CreateUntil=6, StartOffsets={0, 1, 2}, Dur=3, WithInvalid=True, WithGenesis=False),
    gen("sysB", 110, 40, D=4, Templates={"B0", "B1", "B2", "Bl", "F1", "Fl", "F3"}, MaxAuc=2, Prices={2, 3, 4, 5, 6},
        Amts={1, 2, 3, 4, 7}, CapSet={2, 6, 10}, MaxBids=6, MaxDon=1, Tmax=24, Jump=3, CreateUntil=6, StartOffsets={0, 1, 2}, Dur=3, UserSeq=U4, Bidders={"u2", "u3", "u4"},
        WithInvalid=True, WithGenesis=False),
]


U6 = ("<-", "Users6")
GEN_MANY = [
    gen("manyA", 40, 44, UserSeq=U6, Bidders={"u2", "u3", "u4", "u5", "u6"}, Templates={"B0", "B1", "F0", "F1"}, MaxAuc=2,
        Prices={1, 2, 3}, Amts={1, 2, 3}, CapSet={2, 3, 5}, MaxBids=10, MaxDon=1, Tmax=24, Jump=3, CreateUntil=3,
        StartOffsets={0, 1}, Dur=3, KindBag=("<-", "BagBids")),
    gen("manyB", 40, 44, D=4, UserSeq=U6, Bidders={"u2", "u3", "u4", "u5", "u6"}, Templates={"B0", "B2", "Bl", "Fl"}, MaxAuc=2,
        Prices={2, 4, 5, 7}, Amts={1, 2, 4}, CapSet={2, 4}, MaxBids=10, MaxDon=1, Tmax=24, Jump=3, CreateUntil=3,
        StartOffsets={0, 1}, Dur=3, KindBag=("<-", "BagBids")),
]


GEN_LONG = [
    gen("vest100", 16, 60, D=100, Templates={"F100", "B100"}, MaxAuc=2, Prices={50, 100, 150}, Amts={1, 7, 20}, CapSet={20, 30}, MaxBids=4,
        Tmax=260, Jump=45, CreateUntil=3, StartOffsets={0, 1}, Dur=3, KindBag=("<-", "BagBids")),
    gen("ext30", 16, 90, Templates={"B30"}, MaxAuc=1, Prices={1, 2, 3}, Amts={1, 2, 3}, CapSet={5, 20}, MaxBids=8, Tmax=60, Jump=1,
        CreateUntil=1, StartOffsets={0}, Dur=2, KindBag=("<-", "BagBids")),
    gen("ext30p0", 16, 90, Templates={"B30"}, MaxAuc=1, Prices={1, 2, 3}, Amts={1, 2, 3}, CapSet={5, 20}, MaxBids=8, Tmax=20, Jump=1,
        CreateUntil=1, StartOffsets={0}, Dur=2, KindBag=("<-", "BagBids"), Params0=("<-", "ParamsNoFee")),
]
GEN_PARAMS = [
    gen("paramsA", 60, 40, Templates={"B0", "B1", "B2", "F0", "F1"}, MaxAuc=2, Prices={1, 2, 3}, Amts={1, 2, 3, 5}, CapSet={3, 5, 10}, MaxBids=5,
        Tmax=24, Jump=3, CreateUntil=6, StartOffsets={0, 1, 2}, Dur=3, WithInvalid=True, WithParams=True),
    gen("paramsB", 60, 40, Templates={"B0", "B2", "F1"}, MaxAuc=2, Prices={1, 2, 3}, Amts={1, 2, 3, 5}, CapSet={3, 5, 10}, MaxBids=5,
        Tmax=24, Jump=3, CreateUntil=6, StartOffsets={0, 1, 2}, Dur=3, WithInvalid=True, WithParams=True, Params0=("<-", "ParamsPayFee")),
]


def scale(gens, f):
    out = []
    for g in gens:
        g2 = dict(g)
        g2["num"] = int(g["num"] * f)
        out.append(g2)
    return out


PLANS = {
    "C01": dict(mc=[MC_BATCH_Q, MC_FIXED_Q], gen=GEN_GENERAL, tc=[TC_BATCH_Q, TC_FIXED_Q, TC_LIFE_Q], tc_max=1500),
    "C02": dict(mc=[MC_BATCH_Q, MC_FIXED_Q], gen=GEN_GENERAL + GEN_PARAMS, tc=[TC_EXT_Q, TC_CANCEL_Q, TG_DUST_Q], tc_max=2500),
    "C03": dict(mc=[MC_BATCH_Q], gen=GEN_GENERAL, tc=[TC_BATCH_Q, TC_EXT_Q, TG_SOLD0_Q, TG_SURPLUS_Q], tc_max=2500),
    "C04": dict(mc=[MC_BATCH_Q, MC_FIXED_Q], gen=GEN_GENERAL, tc=[TC_BATCH_Q, TC_FIXED_Q, TC_FIXEDI_Q, TG_DUST_Q], tc_max=2000),
    "C05": dict(mc=[MC_BATCH_Q, MC_FIXED_Q], gen=GEN_GENERAL, tc=[TC_BATCH_Q, TC_FIXED_Q, TC_MULTIB_Q, TG_MULTI_Q, TG_SURPLUS_Q], tc_max=1500),
    "C06": dict(mc=[MC_FIXED_Q], gen=GEN_GENERAL, tc=[TC_FIXED_Q, TC_FIXEDI_Q, TG_NEARF_Q, TG_SOLDOUT_Q, TG_DUST_Q], tc_max=3000),
    "C07": dict(mc=[MC_LIFE_Q, MC_LIFE2_Q],
                gen=GEN_GENERAL + [dict(g, name=g["name"] + "F", consts=dict(g["consts"], Faults={0, 1, 2, 3, 5, 8})) for g in GEN_MANY],
                tc=[TC_LIFE_Q, TC_LIFE2_Q], tc_max=2500),
    "C08": dict(mc=[MC_LIFE_Q, MC_LIFE2_Q], gen=GEN_GENERAL, tc=[TC_LIFE_Q, TC_LIFE2_Q, TC_EXT_Q, TG_CLOSED_Q], tc_max=2500),
    "C09": dict(mc=[MC_LIFE_Q, MC_LIFE2_Q], gen=GEN_GENERAL + GEN_LONG[:1], tc=[TC_LIFE_Q, TC_LIFE2_Q, TC_FIXED_Q], tc_max=2000),
    "C10": dict(mc=[MC_INVALID1_Q, MC_INVALIDF_Q], gen=GEN_GENERAL, tc=[TC_FIXEDI_Q, TC_MODIFY_Q, TG_NEARF_Q], tc_max=2500),
    "C11": dict(mc=[MC_BATCH_Q], gen=GEN_GENERAL, tc=[TC_MODIFY_Q, TG_NEARB_Q, TG_CLOSED_Q], tc_max=4000),
    "C12": dict(mc=[MC_INVALID1_Q, MC_INVALIDF_Q], gen=GEN_GENERAL, tc=[TC_CANCEL_Q, TG_NEARF_Q, TG_CLOSED_Q], tc_max=2500),
    "C13": dict(mc=[MC_BATCH_Q], gen=GEN_GENERAL + GEN_LONG[1:] + GEN_PARAMS[:1], tc=[TC_EXT_Q, TC_EXT2_Q, TG_EXT_Q, TG_SOLD0_Q], tc_max=12000),
    "C15": dict(mc=[MC_GENESIS_Q], tc=[TC_GENESIS_Q], tc_max=3000, gen=[dict(g, consts=dict(g["consts"], WithGenesis=True, KindBag=("<-", "BagGenesis"),
                                                 Templates=set(g["consts"]["Templates"]) | {"Bx"})) for g in GEN_GENERAL]),
    "C16": dict(mc=[MC_BATCH_Q, MC_FIXED_Q], tc=[TC_EXT_Q, TG_SOLD0_Q], tc_max=2500,
                gen=GEN_GENERAL + [dict(g, name=g["name"] + "Q", consts=dict(g["consts"], WithQueries=True, KindBag=("<-", "BagQueries")))
                                   for g in scale(GEN_GENERAL, 0.6)]),
    "C18": dict(mc=[MC_INVALID1_Q, MC_INVALIDF_Q], gen=GEN_GENERAL + GEN_PARAMS + GEN_LONG[:1], tc=[TC_FIXEDI_Q, TC_MODIFY_Q, TG_NEARF_Q, TG_NEARB_Q, TG_SOLDOUT_Q, TG_CLOSED_Q], tc_max=2500),
    "C19": dict(mc=[MC_MULTI_Q], gen=GEN_GENERAL, tc=[TC_MULTI_Q, TC_MULTIB_Q, TG_MULTI_Q], tc_max=4000),
}


MC_HOOKS_Q = mc("MC_Hooks_q", NL=2, HookVariants=True, Templates={"B0", "F0"}, Amts={2}, Prices={2}, MaxBids=1, Tmax=5, Jump=2,
                CapSet={5}, StartOffsets={0})
PLANS["C17"] = dict(mc=[MC_HOOKS_Q], gen=[
    gen("hooksA", 100, 30, NL=3, HookVariants=True, Templates={"B0", "B1", "F0", "F1"}, MaxAuc=2, Prices={1, 2, 3}, Amts={1, 2, 3, 5},
        CapSet={3, 5, 10}, MaxBids=5, Tmax=20, Jump=3, CreateUntil=4, StartOffsets={0, 1}, Dur=3, WithInvalid=True),
    gen("hooksB", 100, 30, NL=1, D=4, HookVariants=True, Templates={"B2", "Bl", "Fl"}, MaxAuc=2, Prices={2, 4, 6}, Amts={1, 2, 4},
        CapSet={2, 6}, MaxBids=5, Tmax=20, Jump=3, CreateUntil=4, StartOffsets={0, 1}, Dur=3, UserSeq=U4, Bidders={"u2", "u3", "u4"}),
])
PLANS["C20"] = dict(mc=[], no_replay=True, level="other", bins=("fr-replay",), cli=True, gen=[
    gen("cliA", 30, 30, Templates={"F2", "B4"}, MaxAuc=2, Prices={1, 2, 3}, Amts={1, 2, 3, 5}, CapSet={3, 5}, MaxBids=5, Tmax=20,
        Jump=3, CreateUntil=4, StartOffsets={0, 1, 2}, Dur=3),
    gen("cliB", 30, 30, D=10, Templates={"F2", "B4"}, MaxAuc=2, Prices={5, 10, 15, 33}, Amts={1, 2, 7}, CapSet={3, 5}, MaxBids=5, Tmax=20,
        Jump=3, CreateUntil=4, StartOffsets={0, 1, 2}, Dur=3)],
    explanation="Conformance through the CLI adapter: the node binary is rebuilt from /repo's working tree with default flags and driven "
                "with inputs generated from the TLA+ system specification; TLC evaluates spec/FRCli.tla (command table, message each input "
                "stands for) on the recorded invocations: the binary starts, every module command has --help, and the message printed by "
                "`tx fundraising <cmd> <args> --generate-only` equals the typed input field by field, and the abci_query every query command sends "
                "to a recording RPC endpoint carries exactly the fields the query table derives from the typed arguments and flags.",
    assumptions=["name resolution by reflection at process start is observed, not modelled", "default build of the working tree only"])
# (with three registered listeners in one generator: the order in which listeners run is part of what must be reproducible)
PLANS["C14"] = dict(mc=[], gen=GEN_MANY + scale(GEN_GENERAL, 0.3) + [dict(g, name=g["name"] + "D", num=20) for g in PLANS["C17"]["gen"][:1]],
                    check="C14", replicas=5, processes=2,
                    assumptions=["C14 is a 2-safety property of the implementation: the specification is deterministic by construction (every Do operator is a function), so there is no design-level model checking; the clause compares replicas of real executions"])
PLANS["ALL"] = dict(mc=[], gen=GEN_GENERAL, check="ALL")


MC_BATCH_T = mc("MC_Batch_t", Templates={"B1", "B5"}, Prices={1, 2, 3}, Amts={1, 3}, MaxBids=3, Tmax=8, timeout=1500)
MC_LIFE_T = mc("MC_Life_t", D=4, Templates={"Fl", "Bl"}, MaxAuc=2, Amts={2}, Prices={4}, MaxBids=1, Tmax=10, Jump=3, CapSet={5},
               CreateUntil=2, StartOffsets={0, 1}, timeout=1500)
MC_MULTI_T = mc("MC_Multi_t", Templates={"B0", "F0"}, MaxAuc=2, Amts={2}, Prices={2}, MaxBids=2, Tmax=5, Jump=2, CapSet={3, 5}, timeout=1500)
MC_GENESIS_T = mc("MC_Genesis_t", Templates={"B1", "F1", "Bx"}, MaxAuc=2, Amts={2}, Prices={2}, MaxBids=1, Tmax=7, Jump=2, WithGenesis=True,
                  timeout=1500)
MC_HOOKS_T = mc("MC_Hooks_t", NL=3, HookVariants=True, Templates={"B0", "F0", "B1"}, Amts={2}, Prices={2}, MaxBids=2, Tmax=6, Jump=2,
                CapSet={5}, StartOffsets={0, 1}, timeout=1500)
TC_EXT_T = mc("TC_Ext_t", Templates={"B5"}, Prices={1, 2}, Amts={2}, MaxBids=3, Tmax=5, Jump=1, CapSet={2, 4}, StartOffsets={0},
              CreateUntil=0, Dur=2, MaxMods=1, timeout=1500)
TC_BATCH_T = mc("TC_Batch_t", Templates={"B1"}, Prices={1, 2, 3}, Amts={1, 3}, MaxBids=2, Tmax=8, Jump=2, StartOffsets={0, 1}, CreateUntil=1,
                timeout=1500)
TC_FIXED_T = mc("TC_Fixed_t", WithInvalid=True, RejectSample=20, Templates={"F1", "F3"}, Amts={1, 2, 3}, MaxBids=2, Tmax=7, Jump=2, CapSet={3, 5}, StartOffsets={0, 1}, CreateUntil=1,
                timeout=1500)
THOROUGH_MC = {"MC_Fixed_q": MC_FIXED_T, "MC_Batch_q": MC_BATCH_T, "MC_Life2_q": MC_LIFE_T, "MC_Multi_q": MC_MULTI_T,
               "MC_Genesis_q": MC_GENESIS_T, "MC_Hooks_q": MC_HOOKS_T, "MC_Invalid1_q": MC_INVALID_Q, "TC_Ext_q": TC_EXT_T,
               "TC_Batch_q": TC_BATCH_T, "TC_FixedI_q": TC_FIXED_T}
LEMMAS = {"C01": ["L1", "L2", "L3", "L4", "L7"], "C03": ["L5"], "C04": ["L1", "L2", "L3", "L6"], "C05": ["L3"],
          "C09": ["L7"], "C11": ["L4"], "C13": ["L9"]}


def plan(prop, tier):
    if prop not in PLANS:
        raise SystemExit("no plan for " + prop)
    p = dict(PLANS[prop])
    if prop in LEMMAS:
        p["lemmas"] = LEMMAS[prop]
    if prop in ("C08", "C13"):
        p["lifecycle"] = True
    if prop not in ("C14", "C17", "C20"):
        p["drive"] = 40 if tier == "quick" else 600
    if prop in ("C01", "C03", "C04", "C07", "C09", "C11", "C13"):
        p["events18"] = 50 if tier == "quick" else 1500
    if prop in ("C02", "C07", "C08", "C10", "C12", "C18"):
        p["abci"] = 60 if tier == "quick" else 600
    if tier == "thorough":
        p["gen"] = scale(p.get("gen", []), 10)
        p["tc_max"] = 50000
        p["mc"] = [THOROUGH_MC.get(m["name"], m) for m in p.get("mc", [])]
        p["tc"] = [{k: v for k, v in THOROUGH_MC.get(m["name"], m).items() if k != "tc_max"} for m in p.get("tc", [])]
        if "replicas" in p:
            p["replicas"] = 12
    return p


def clauses_of(check):
    src = open(os.path.join(os.path.dirname(__file__), "..", "spec", "FRProps.tla")).read()
    ids = sorted(set(re.findall(r'"(C\d\d\.[a-z_]+)"', src)))
    return [c for c in ids if check == "ALL" or c.startswith(check)]


def samples(traces, n):
    out = []
    for t in traces:
        if len(out) >= n or not os.path.exists(t):
            break
        cur = []
        for line in open(t):
            r = json.loads(line)
            if r["i"] == 0 and cur:
                break
            cur.append({"act": r["act"], "ok": r["res"]["ok"], "xfers": r["xfers"]} if r["i"] > 0 else {"act": r["act"]})
        if cur:
            out.append({"behaviour": cur[0].get("act", {}).get("a"), "steps": cur[:40]})
    return out


def accumulate_nontrivial(stats, t):
    """one pass over a recorded trace: judged steps, distinct non-trivial step kinds, and how often the situations the
    clauses talk about actually occurred (vacuity guard, evidence key 'exercised')"""
    ex = stats.setdefault("exercised", {})

    def bump(k, n=1):
        ex[k] = ex.get(k, 0) + n
    prev = None
    for line in open(t):
        r = json.loads(line)
        if r["i"] == 0:
            prev = r
            continue
        if not r.get("judge", True):
            prev = r
            continue
        stats["evaluations"] += 1
        a = r["act"]
        ok = r["res"]["ok"]
        kind = a["a"]
        bump("%s_%s" % (kind, "ok" if ok else "rejected"))
        tid = a.get("id", None)
        pre_st = post_st = None
        if prev is not None and isinstance(tid, int) and 0 <= tid < len(prev["st"]["auctions"]) and tid < len(r["st"]["auctions"]):
            pre_st = prev["st"]["auctions"][tid]["status"]
            post_st = r["st"]["auctions"][tid]["status"]
        if prev is not None and prev["st"] != r["st"]:
            stats["seen"].add((kind, ok, pre_st, post_st, a.get("type"), len(r["xfers"])))
        if a.get("hookFail") and not ok:
            bump("hook_veto")
        if r.get("hooks"):
            bump("steps_with_listener_calls")
        if r.get("rep", 1) > 1:
            bump("replica_steps")
        if kind == "Block" and prev is not None:
            if a.get("fault", 0) > 0 and a["fault"] <= r["extra"]["nx"]:
                bump("block_fault_hit")
            pa, qa = prev["st"]["auctions"], r["st"]["auctions"]
            settled = 0
            for i, x in enumerate(pa):
                if i >= len(qa):
                    break
                y = qa[i]
                if x["status"] == "StandBy" and y["status"] == "Started":
                    bump("opened")
                if x["status"] == "Started" and y["status"] in ("Vesting", "Finished"):
                    settled += 1
                    nb = len(prev["st"]["bids"][i])
                    bidders = {b["bidder"] for b in prev["st"]["bids"][i]}
                    winners = {b["bidder"] for b in r["st"]["bids"][i] if b["matched"]}
                    bump("settled_%s" % ("batch" if x["type"] == "B" else "fixed"))
                    if nb >= 2:
                        bump("settled_with_2plus_bids")
                    if len(winners) >= 2:
                        bump("settled_with_2plus_winners")
                    if bidders - winners:
                        bump("settled_with_loser")
                    if x["type"] == "B" and len(x["ends"]) > 1:
                        bump("settled_after_extension")
                    if x["type"] == "B" and len(x["ends"]) < x["maxExt"] + 1 and prev["st"]["lastMatched"][i] > 0:
                        bump("settled_by_rate_rule")
                    if y["status"] == "Vesting":
                        bump("vesting_created")
                        if len(r["st"]["vqs"][i]) >= 50:
                            bump("vesting_created_50plus_instalments")
                    if x["type"] == "B" and y["matchedPrice"] > 0:
                        bump("batch_sold")
                if x["status"] == "Started" and y["status"] == "Started" and len(y["ends"]) > len(x["ends"]):
                    bump("extended")
                    if prev["st"]["lastMatched"][i] > 0:
                        bump("extended_by_rate_rule")
                if x["status"] == "Vesting":
                    rel = sum(1 for k, v in enumerate(r["st"]["vqs"][i]) if v["released"] and not prev["st"]["vqs"][i][k]["released"])
                    if rel:
                        bump("instalments_released", rel)
                    if rel >= 2:
                        bump("block_skipping_release_times")
                    if y["status"] == "Finished":
                        bump("vesting_finished")
            if settled >= 2:
                bump("two_auctions_settled_in_one_block")
            if any(x["status"] in ("Finished", "Cancelled") for x in pa):
                bump("block_with_terminal_auction")
        if kind == "Genesis":
            bump("genesis_with_%d_auctions" % min(2, len(r["st"]["auctions"])))
        if kind == "Donate" and ok:
            bump("donation")
        if kind == "Cancel" and ok and prev is not None and any(v > 0 for e, d in prev["st"]["bal"].items() if e.startswith("sell.") for v in [d.get(prev["st"]["auctions"][tid]["sellDenom"], 0) - prev["st"]["auctions"][tid]["sellAmt"]] if e == "sell.%d" % tid):
            bump("cancel_with_donation_in_escrow")
        prev = r


def count_nontrivial(prop, traces, extra=None):
    """evaluations = judged real-code steps; distinct_nontrivial = distinct (action kind, accepted?, status of the target
    auction before, after, bid type, number of bank transfers) combinations among state-changing judged steps."""
    stats = {"evaluations": 0, "seen": set(), "exercised": {}}
    for t in traces:
        if os.path.exists(t):
            accumulate_nontrivial(stats, t)
    if extra:
        stats["evaluations"] += extra["evaluations"]
        stats["seen"] |= extra["seen"]
        for k, v in extra.get("exercised", {}).items():
            stats["exercised"][k] = stats["exercised"].get(k, 0) + v
    return {"evaluations": stats["evaluations"], "distinct_nontrivial": len(stats["seen"]),
            "exercised": dict(sorted(stats["exercised"].items())),
            "rule": "evaluations = real-code steps replayed and judged by the monitor; distinct_nontrivial = distinct "
                    "(action, accepted, target status before, after, bid type, number of bank transfers) tuples among "
                    "state-changing judged steps"}


# vacuity guard: situations that must have occurred at least once in the real-code traces of a run of the property's check;
# otherwise the run says nothing about the property and is reported as broken (exit 2), never as "held"
REQUIRED = {
    "C01": ["Bid_ok", "settled_batch", "settled_fixed", "vesting_created", "instalments_released"],
    "C02": ["Bid_ok", "settled_batch", "settled_with_loser", "vesting_finished", "Cancel_ok"],
    "C03": ["batch_sold", "settled_with_2plus_bids", "settled_with_loser"],
    "C04": ["batch_sold", "settled_fixed", "Modify_ok"],
    "C05": ["settled_batch", "settled_fixed", "UpdateAllowed_ok"],
    "C06": ["settled_fixed", "Bid_ok", "Bid_rejected"],
    "C07": ["block_with_terminal_auction", "block_fault_hit", "settled_batch"],
    "C08": ["opened", "settled_batch", "settled_fixed", "vesting_finished", "Cancel_ok", "extended"],
    "C09": ["vesting_created", "instalments_released", "vesting_finished", "vesting_created_50plus_instalments"],
    "C10": ["MsgAddAllowed_rejected", "Bid_ok", "AddAllowed_ok"],
    "C11": ["Modify_ok", "Modify_rejected"],
    "C12": ["Cancel_ok", "Cancel_rejected"],
    "C13": ["extended", "settled_after_extension", "extended_by_rate_rule", "settled_by_rate_rule"],
    "C14": ["replica_steps", "settled_with_2plus_winners"],
    "C15": ["Genesis_ok", "genesis_with_2_auctions"],
    "C16": ["Query_ok", "batch_sold", "settled_after_extension"],
    "C17": ["hook_veto", "steps_with_listener_calls"],
    "C18": ["Bid_rejected", "CreateFixed_rejected", "CreateBatch_rejected", "Modify_rejected", "Cancel_rejected"],
    "C19": ["two_auctions_settled_in_one_block", "Bid_ok"],
}


def when_matches(when, step, pre):
    """known_findings.json 'when' conditions, evaluated on the recorded step."""
    a = step["act"]
    for k, v in when.items():
        if k == "act":
            if a.get("a") != v:
                return False
        elif k == "act_in":
            if a.get("a") not in v:
                return False
        else:
            raise SystemExit("unknown known-finding condition " + k)
    return True


def cli_when_matches(when, rec):
    """known_findings.json conditions for records of the CLI adapter"""
    for k, v in when.items():
        if k == "cli_kind":
            if rec.get("kind") != v:
                return False
        elif k == "cli_cmd_in":
            if rec.get("cmd") not in v:
                return False
        elif k == "note_contains":
            if v not in (rec.get("note") or ""):
                return False
        else:
            return False
    return True
