"""C20 adapter: drives the node binary built from /repo's working tree and records what it observed
for spec/FRCli.tla.  Encoding of an argument (18-digit scaled decimals, kebab-case enums, RFC3339
times, coins as <amount><denom>) is the adapter's business, not the property's."""
import json, os, re, shutil, subprocess, time, glob, signal
from fractions import Fraction

GOENV = dict(os.environ, GOFLAGS="-mod=mod", GOPROXY="off", GOSUMDB="off", GOTOOLCHAIN="local")
DEN = {"dA": "denoma", "dB": "denomb", "dF": "denomf"}
NED = {v: k for k, v in DEN.items()}
BT = {"F": "fixed-price", "W": "batch-worth", "M": "batch-many"}
BTN = {"BID_TYPE_FIXED_PRICE": "F", "BID_TYPE_BATCH_WORTH": "W", "BID_TYPE_BATCH_MANY": "M"}
T0 = 1893456000  # 2030-01-01T00:00:00Z


def tick_time(t):
    return time.strftime("%Y-%m-%dT%H:%M:%SZ", time.gmtime(T0 + t * 86400))


def time_tick(s):
    import calendar
    s = s.rstrip("Z").split(".")[0]
    return (calendar.timegm(time.strptime(s, "%Y-%m-%dT%H:%M:%S")) - T0) // 86400


def dec_arg(n, d):
    return str(n * 10 ** 18 // d)


def dec_num(s, d):
    f = Fraction(s) * d
    return int(f) if f.denominator == 1 else -1


def run(cmd, timeout=60, **kw):
    try:
        p = subprocess.run(cmd, stdout=subprocess.PIPE, stderr=subprocess.PIPE, text=True, timeout=timeout, **kw)
        return p.returncode, p.stdout, p.stderr
    except subprocess.TimeoutExpired:
        return 124, "", "timeout"


def typable(a, users):
    if a["a"] not in ("CreateFixed", "CreateBatch", "Cancel", "Bid", "Modify"):
        return False
    if a.get("by") not in users:
        return False
    if a["a"].startswith("Create"):
        return len(a["sched"]) == 1 and a["sellDenom"] in DEN and a["payDenom"] in DEN and a["sellAmt"] > 0 and a["price"] > 0
    if a["a"] in ("Bid", "Modify"):
        if a["denom"] not in DEN or a["amt"] <= 0 or a["price"] <= 0:
            return False
        if a["a"] == "Bid" and a["type"] not in BT:
            return False
    return True


def argv_of(a, d):
    k = a["a"]
    if k == "CreateFixed":
        s = a["sched"][0]
        return ["create-fixed-price-auction", dec_arg(a["price"], d), "%d%s" % (a["sellAmt"], DEN[a["sellDenom"]]), DEN[a["payDenom"]],
                json.dumps({"release_time": tick_time(s["t"]), "weight": dec_arg(s["w"], d)}), tick_time(a["start"]), tick_time(a["end"])]
    if k == "CreateBatch":
        s = a["sched"][0]
        return ["create-batch-auction", dec_arg(a["price"], d), dec_arg(a["minPrice"], d), "%d%s" % (a["sellAmt"], DEN[a["sellDenom"]]),
                DEN[a["payDenom"]], json.dumps({"release_time": tick_time(s["t"]), "weight": dec_arg(s["w"], d)}),
                str(a["maxExt"]), dec_arg(a["rate"], d), tick_time(a["start"]), tick_time(a["end"])]
    if k == "Cancel":
        return ["cancel-auction", str(a["id"])]
    if k == "Bid":
        return ["place-bid", str(a["id"]), BT[a["type"]], dec_arg(a["price"], d), "%d%s" % (a["amt"], DEN[a["denom"]])]
    if k == "Modify":
        return ["modify-bid", str(a["id"]), str(a["bid"]), dec_arg(a["price"], d), "%d%s" % (a["amt"], DEN[a["denom"]])]
    raise ValueError(k)


def sent_of(msg, d, names):
    """decode the JSON message printed by --generate-only into model terms"""
    t = msg.get("@type", "").split(".")[-1]
    who = msg.get("auctioneer") or msg.get("bidder") or ""
    out = {"msg": t, "by": names.get(who, who)}

    def sched(v):
        return [{"t": time_tick(x["release_time"]), "w": dec_num(x["weight"], d)} for x in (v or [])]
    if t in ("MsgCreateFixedPriceAuction", "MsgCreateBatchAuction"):
        out.update(price=dec_num(msg["start_price"], d), sellDenom=NED.get(msg["selling_coin"]["denom"], msg["selling_coin"]["denom"]),
                   sellAmt=int(msg["selling_coin"]["amount"]), payDenom=NED.get(msg["paying_coin_denom"], msg["paying_coin_denom"]),
                   sched=sched(msg.get("vesting_schedules")), start=time_tick(msg["start_time"]), end=time_tick(msg["end_time"]))
        if t == "MsgCreateBatchAuction":
            out.update(minPrice=dec_num(msg["min_bid_price"], d), maxExt=int(msg.get("max_extended_round", 0)),
                       rate=dec_num(msg["extended_round_rate"], d))
    elif t == "MsgCancelAuction":
        out.update(id=int(msg.get("auction_id", 0)))
    elif t in ("MsgPlaceBid", "MsgModifyBid"):
        out.update(id=int(msg.get("auction_id", 0)), price=dec_num(msg["price"], d), denom=NED.get(msg["coin"]["denom"], msg["coin"]["denom"]),
                   amt=int(msg["coin"]["amount"]))
        if t == "MsgPlaceBid":
            out.update(type=BTN.get(msg.get("bid_type"), str(msg.get("bid_type"))))
        else:
            out.update(bid=int(msg.get("bid_id", 0)))
    return out


TX_CMDS = ["create-fixed-price-auction", "create-batch-auction", "cancel-auction", "place-bid", "modify-bid"]
Q_CMDS = ["params", "list-auction", "get-auction", "list-bid", "get-bid", "list-allowed-bidder", "get-allowed-bidder", "list-vesting-queue"]


def build_binary(repo, work):
    out = os.path.join(work, "bin", "fundraisingd")
    r = subprocess.run(["go", "build", "-o", out, "./cmd/fundraisingd"], cwd=repo, env=GOENV, stdout=subprocess.PIPE, stderr=subprocess.STDOUT, text=True)
    if r.returncode != 0:
        return None, r.stdout[-2000:]
    return out, ""


def observe(binary, home, behaviours, nmsgs, addrs):
    """returns the list of records"""
    recs = []
    code, out, err = run([binary, "--home", home, "--help"])
    recs.append({"kind": "start", "exit": code, "cmd": "", "mentions": "fundraisingd" in out or "Usage" in out, "note": (err or out)[:300]})
    if code != 0:
        return recs
    for c in TX_CMDS:
        code, out, err = run([binary, "--home", home, "tx", "fundraising", c, "--help"])
        recs.append({"kind": "help", "cmd": c, "exit": code, "mentions": c in out, "note": err[:200]})
    for c in Q_CMDS:
        code, out, err = run([binary, "--home", home, "query", "fundraising", c, "--help"])
        recs.append({"kind": "help", "cmd": c, "exit": code, "mentions": c in out, "note": err[:200]})
    seen, n = set(), 0
    for f in behaviours:
        try:
            acts = json.load(open(f))
        except Exception:
            continue
        init = acts[0]
        d, users = init["grid"], init["users"]
        names = {addrs[u]: u for u in users if u in addrs}
        for a in acts[1:]:
            a = {k: v for k, v in a.items() if k not in ("hookFail", "hookPos")}
            key = json.dumps(a, sort_keys=True)
            if key in seen or not typable(a, users):
                continue
            seen.add(key)
            argv = argv_of(a, d)
            code, out, err = run([binary, "--home", home, "tx", "fundraising"] + argv +
                                 ["--from", addrs[a["by"]], "--generate-only", "--chain-id", "verif-cli"])
            rec = {"kind": "sent", "act": a, "cmd": argv[0], "exit": code, "argv": argv, "sent": {"msg": "none", "by": ""}, "note": err[:300]}
            if code == 0:
                try:
                    msgs = json.loads(out)["body"]["messages"]
                    rec["sent"] = sent_of(msgs[0], d, names)
                except Exception as e:  # unparsable output
                    rec["note"] = "unparsable output: %s %s" % (e, out[:200])
                    rec["exit"] = 99
            recs.append(rec)
            n += 1
            if n >= nmsgs:
                return recs
    return recs
