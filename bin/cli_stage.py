"""C20 adapter: drives the node binary built from /repo's working tree and records what it observed
for spec/FRCli.tla.  Encoding of an argument (18-digit scaled decimals, kebab-case enums, RFC3339
times, coins as <amount><denom>) is the adapter's business, not the property's."""
import json, os, re, shutil, subprocess, time, glob, signal, sys
from fractions import Fraction

GOENV = dict(os.environ, GOFLAGS="-mod=mod", GOPROXY="off", GOSUMDB="off", GOTOOLCHAIN="local")
DEN = {"dA": "denoma", "dB": "denomb", "dF": "denomf"}
NED = {v: k for k, v in DEN.items()}
BT = {"F": "fixed-price", "W": "batch-worth", "M": "batch-many"}
BTN = {"BID_TYPE_FIXED_PRICE": "F", "BID_TYPE_BATCH_WORTH": "W", "BID_TYPE_BATCH_MANY": "M"}
T0 = 1893456000  # 2030-01-01T00:00:00Z


def tick_time(t):
    return time.strftime("%Y-%m-%dT%H:%M:%SZ", time.gmtime(T0 + t * 86400))


def time_tick(s):
    import calendar
    s = s.rstrip("Z").split(".")[0]
    return (calendar.timegm(time.strptime(s, "%Y-%m-%dT%H:%M:%S")) - T0) // 86400


def dec_arg(n, d):
    return str(n * 10 ** 18 // d)


def dec_num(s, d):
    f = Fraction(s) * d
    return int(f) if f.denominator == 1 else -1


def run(cmd, timeout=60, **kw):
    # the binary's default keyring probes the desktop secret service: without this every invocation leaves a dbus-* entry in /tmp
    kw.setdefault("env", dict(os.environ, DBUS_SESSION_BUS_ADDRESS="disabled:"))
    try:
        p = subprocess.run(cmd, stdout=subprocess.PIPE, stderr=subprocess.PIPE, text=True, timeout=timeout, **kw)
        return p.returncode, p.stdout, p.stderr
    except subprocess.TimeoutExpired:
        return 124, "", "timeout"


def typable(a, users):
    if a["a"] not in ("CreateFixed", "CreateBatch", "Cancel", "Bid", "Modify"):
        return False
    if a.get("by") not in users:
        return False
    if a["a"].startswith("Create"):
        return len(a["sched"]) == 1 and a["sellDenom"] in DEN and a["payDenom"] in DEN and a["sellAmt"] > 0 and a["price"] > 0
    if a["a"] in ("Bid", "Modify"):
        if a["denom"] not in DEN or a["amt"] <= 0 or a["price"] <= 0:
            return False
        if a["a"] == "Bid" and a["type"] not in BT:
            return False
    return True


def argv_of(a, d):
    k = a["a"]
    if k == "CreateFixed":
        s = a["sched"][0]
        return ["create-fixed-price-auction", dec_arg(a["price"], d), "%d%s" % (a["sellAmt"], DEN[a["sellDenom"]]), DEN[a["payDenom"]],
                json.dumps({"release_time": tick_time(s["t"]), "weight": dec_arg(s["w"], d)}), tick_time(a["start"]), tick_time(a["end"])]
    if k == "CreateBatch":
        s = a["sched"][0]
        return ["create-batch-auction", dec_arg(a["price"], d), dec_arg(a["minPrice"], d), "%d%s" % (a["sellAmt"], DEN[a["sellDenom"]]),
                DEN[a["payDenom"]], json.dumps({"release_time": tick_time(s["t"]), "weight": dec_arg(s["w"], d)}),
                str(a["maxExt"]), dec_arg(a["rate"], d), tick_time(a["start"]), tick_time(a["end"])]
    if k == "Cancel":
        return ["cancel-auction", str(a["id"])]
    if k == "Bid":
        return ["place-bid", str(a["id"]), BT[a["type"]], dec_arg(a["price"], d), "%d%s" % (a["amt"], DEN[a["denom"]])]
    if k == "Modify":
        return ["modify-bid", str(a["id"]), str(a["bid"]), dec_arg(a["price"], d), "%d%s" % (a["amt"], DEN[a["denom"]])]
    raise ValueError(k)


def sent_of(msg, d, names):
    """decode the JSON message printed by --generate-only into model terms"""
    t = msg.get("@type", "").split(".")[-1]
    who = msg.get("auctioneer") or msg.get("bidder") or ""
    out = {"msg": t, "by": names.get(who, who)}

    def sched(v):
        return [{"t": time_tick(x["release_time"]), "w": dec_num(x["weight"], d)} for x in (v or [])]
    if t in ("MsgCreateFixedPriceAuction", "MsgCreateBatchAuction"):
        out.update(price=dec_num(msg["start_price"], d), sellDenom=NED.get(msg["selling_coin"]["denom"], msg["selling_coin"]["denom"]),
                   sellAmt=int(msg["selling_coin"]["amount"]), payDenom=NED.get(msg["paying_coin_denom"], msg["paying_coin_denom"]),
                   sched=sched(msg.get("vesting_schedules")), start=time_tick(msg["start_time"]), end=time_tick(msg["end_time"]))
        if t == "MsgCreateBatchAuction":
            out.update(minPrice=dec_num(msg["min_bid_price"], d), maxExt=int(msg.get("max_extended_round", 0)),
                       rate=dec_num(msg["extended_round_rate"], d))
    elif t == "MsgCancelAuction":
        out.update(id=int(msg.get("auction_id", 0)))
    elif t in ("MsgPlaceBid", "MsgModifyBid"):
        out.update(id=int(msg.get("auction_id", 0)), price=dec_num(msg["price"], d), denom=NED.get(msg["coin"]["denom"], msg["coin"]["denom"]),
                   amt=int(msg["coin"]["amount"]))
        if t == "MsgPlaceBid":
            out.update(type=BTN.get(msg.get("bid_type"), str(msg.get("bid_type"))))
        else:
            out.update(bid=int(msg.get("bid_id", 0)))
    return out


TX_CMDS = ["create-fixed-price-auction", "create-batch-auction", "cancel-auction", "place-bid", "modify-bid"]
Q_CMDS = ["params", "list-auction", "get-auction", "list-bid", "get-bid", "list-allowed-bidder", "get-allowed-bidder", "list-vesting-queue"]


def build_binary(repo, work):
    out = os.path.join(work, "bin", "fundraisingd")
    r = subprocess.run(["go", "build", "-o", out, "./cmd/fundraisingd"], cwd=repo, env=GOENV, stdout=subprocess.PIPE, stderr=subprocess.STDOUT, text=True)
    if r.returncode != 0:
        return None, r.stdout[-2000:]
    return out, ""


def observe(binary, home, behaviours, nmsgs, addrs):
    """returns the list of records"""
    recs = []
    code, out, err = run([binary, "--home", home, "--help"])
    recs.append({"kind": "start", "exit": code, "cmd": "", "mentions": "fundraisingd" in out or "Usage" in out, "note": (err or out)[:300]})
    if code != 0:
        return recs
    for c in TX_CMDS:
        code, out, err = run([binary, "--home", home, "tx", "fundraising", c, "--help"])
        recs.append({"kind": "help", "cmd": c, "exit": code, "mentions": c in out, "note": err[:200]})
    for c in Q_CMDS:
        code, out, err = run([binary, "--home", home, "query", "fundraising", c, "--help"])
        recs.append({"kind": "help", "cmd": c, "exit": code, "mentions": c in out, "note": err[:200]})
    seen, n = set(), 0
    for f in behaviours:
        try:
            acts = json.load(open(f))
        except Exception:
            continue
        init = acts[0]
        d, users = init["grid"], init["users"]
        names = {addrs[u]: u for u in users if u in addrs}
        for a in acts[1:]:
            a = {k: v for k, v in a.items() if k not in ("hookFail", "hookPos")}
            key = json.dumps(a, sort_keys=True)
            if key in seen or not typable(a, users):
                continue
            seen.add(key)
            argv = argv_of(a, d)
            code, out, err = run([binary, "--home", home, "tx", "fundraising"] + argv +
                                 ["--from", addrs[a["by"]], "--generate-only", "--chain-id", "verif-cli"])
            rec = {"kind": "sent", "act": a, "cmd": argv[0], "exit": code, "argv": argv, "sent": {"msg": "none", "by": ""}, "note": err[:300]}
            if code == 0:
                try:
                    msgs = json.loads(out)["body"]["messages"]
                    rec["sent"] = sent_of(msgs[0], d, names)
                except Exception as e:  # unparsable output
                    rec["note"] = "unparsable output: %s %s" % (e, out[:200])
                    rec["exit"] = 99
            recs.append(rec)
            n += 1
            if n >= nmsgs:
                return recs
    return recs


# ---- what a query command sends (C20.sent for queries) -----------------------------------------------------------
def pb_decode(b, prefix=""):
    """schema-free protobuf wire decoding into (field path, value) pairs: varints as decimal strings, length-delimited
    payloads as text when printable, otherwise as a nested message; empty payloads are dropped"""
    out, i = [], 0

    def varint(i):
        x, sh = 0, 0
        while True:
            c = b[i]
            i += 1
            x |= (c & 0x7F) << sh
            sh += 7
            if not c & 0x80:
                return x, i
    while i < len(b):
        key, i = varint(i)
        fno, wt = key >> 3, key & 7
        name = "%s%d" % (prefix, fno)
        if wt == 0:
            v, i = varint(i)
            out.append((name, str(v)))
        elif wt == 2:
            n, i = varint(i)
            payload = b[i:i + n]
            i += n
            if not payload:
                continue
            if all(0x20 <= c < 0x7F for c in payload):
                out.append((name, payload.decode()))
            else:
                try:
                    out += pb_decode(payload, name + ".")
                except Exception:
                    out.append((name, "0x" + payload.hex()))
        elif wt == 1:
            out.append((name, "0x" + b[i:i + 8].hex()))
            i += 8
        elif wt == 5:
            out.append((name, "0x" + b[i:i + 4].hex()))
            i += 4
        else:
            raise ValueError("wire type %d" % wt)
    return out


def query_invocations(addr):
    """(command, positional arguments, [(flag, value)]) typed by the user; the expected request is derived by spec/FRCli.tla"""
    a2 = addr
    return [
        ("params", [], []),
        ("list-auction", [], []), ("list-auction", [], [("status", "AUCTION_STATUS_STARTED")]), ("list-auction", [], [("type", "AUCTION_TYPE_BATCH")]),
        ("list-auction", [], [("status", "AUCTION_STATUS_VESTING"), ("type", "AUCTION_TYPE_FIXED_PRICE")]),
        ("list-auction", [], [("page-limit", "2"), ("page-offset", "1")]),
        ("get-auction", ["3"], []), ("get-auction", ["0"], []),
        ("list-allowed-bidder", [], []), ("list-allowed-bidder", [], [("auction-id", "2")]), ("list-allowed-bidder", [], [("auction-id", "1"), ("page-limit", "5")]),
        ("get-allowed-bidder", ["1", a2], []), ("get-allowed-bidder", ["0", a2], []),
        ("list-bid", [], []), ("list-bid", [], [("auction-id", "1")]), ("list-bid", [], [("bidder", a2)]), ("list-bid", [], [("is-matched", "true")]),
        ("list-bid", [], [("is-matched", "false")]), ("list-bid", [], [("auction-id", "2"), ("bidder", a2), ("is-matched", "true")]),
        ("list-bid", [], [("bidder", a2), ("is-matched", "false")]), ("list-bid", [], [("auction-id", "1"), ("page-limit", "3"), ("page-offset", "2")]),
        ("get-bid", ["1", "2"], []), ("get-bid", ["0", "5"], []), ("get-bid", ["4", "0"], []),
        ("list-vesting-queue", [], []), ("list-vesting-queue", [], [("auction-id", "1")]), ("list-vesting-queue", [], [("auction-id", "3"), ("page-offset", "4")]),
    ]


def query_sent(binary, home, addr):
    """runs every query command against a recording RPC endpoint (no node needed) and records the request it sends"""
    import http.server
    import threading
    log = []

    class H(http.server.BaseHTTPRequestHandler):
        def log_message(self, *a):
            pass

        def do_POST(self):
            body = self.rfile.read(int(self.headers.get("Content-Length", "0")))
            log.append(body.decode(errors="replace"))
            try:
                rid = json.loads(body).get("id", 1)
            except Exception:
                rid = 1
            out = json.dumps({"jsonrpc": "2.0", "id": rid, "error": {"code": -32603, "message": "recorder", "data": "recorder"}}).encode()
            self.send_response(200)
            self.send_header("Content-Type", "application/json")
            self.send_header("Content-Length", str(len(out)))
            self.end_headers()
            self.wfile.write(out)
        do_GET = do_POST
    srv = http.server.ThreadingHTTPServer(("127.0.0.1", 0), H)
    port = srv.server_address[1]
    threading.Thread(target=srv.serve_forever, daemon=True).start()
    recs = []
    try:
        for cmd, pos, flags in query_invocations(addr):
            del log[:]
            argv = [cmd] + pos + [x for f, v in flags for x in ("--" + f, v)]
            code, out, err = run([binary, "--home", home, "query", "fundraising"] + argv + ["--node", "tcp://127.0.0.1:%d" % port, "-o", "json"])
            rec = {"kind": "qsent", "cmd": cmd, "argv": argv, "pos": pos, "flags": [{"n": f, "v": v} for f, v in flags], "path": "", "req": [], "exit": 1,
                   "note": ""}
            qs = []
            for line in log:
                try:
                    j = json.loads(line)
                except Exception:
                    continue
                if j.get("method") == "abci_query":
                    qs.append(j.get("params", {}))
            if len(qs) != 1:
                rec["note"] = "expected exactly one abci_query, saw %d; %s" % (len(qs), (err or out)[-200:])
            else:
                try:
                    rec["path"] = qs[0].get("path", "")
                    rec["req"] = [{"k": k, "v": v} for k, v in pb_decode(bytes.fromhex(qs[0].get("data", "") or ""))]
                    rec["exit"] = 0
                except Exception as e:
                    rec["note"] = "undecodable request: %s" % e
            recs.append(rec)
    finally:
        srv.shutdown()
        srv.server_close()
    return recs


def norm(x):
    """canonical form for comparing displayed objects with stored ones: default-valued fields dropped, numbers as strings"""
    if isinstance(x, dict):
        out = {}
        for k, v in x.items():
            v = norm(v)
            if v in ("0", "", False, [], {}, None, "0.000000000000000000"):
                continue
            out[k] = v
        return out
    if isinstance(x, list):
        return [norm(v) for v in x]
    if isinstance(x, bool):
        return x
    if isinstance(x, (int, float)):
        return str(x)
    return x


def node_session(binary, home, preload=None, blocks_timeout=60):
    """Single-node chain on local ports: create auctions through the CLI, then run every query command.
    Returns records of kind "tx" and "query" (exit status, what was displayed, what the specification expects)."""
    import socket
    recs = []

    def free(port):
        with socket.socket(socket.AF_INET, socket.SOCK_STREAM) as sk:
            try:
                sk.bind(("127.0.0.1", port))
                return True
            except OSError:
                return False
    base = 20000 + (os.getpid() % 20000)
    for _ in range(50):
        if all(free(base + k) for k in range(3)):
            break
        base += 7
    else:
        raise RuntimeError("no free local ports for the node session")
    rpc, p2p, grpc = base, base + 1, base + 2
    node = "tcp://127.0.0.1:%d" % rpc

    def cli(*a, timeout=60):
        return run([binary, "--home", home] + list(a), timeout=timeout)
    code, out, err = cli("init", "n1", "--chain-id", "verif-node")
    if code != 0:
        return [{"kind": "node", "cmd": "init", "exit": code, "note": err[-300:]}]
    for k in ("val", "alice"):
        cli("keys", "add", k, "--keyring-backend", "test")
    _, val, _ = cli("keys", "show", "val", "-a", "--keyring-backend", "test")
    _, alice, _ = cli("keys", "show", "alice", "-a", "--keyring-backend", "test")
    val, alice = val.strip(), alice.strip()
    cli("genesis", "add-genesis-account", val, "1000000000000stake")
    cli("genesis", "add-genesis-account", alice, "1000000000stake,1000000denoma,1000000denomb")
    cli("genesis", "gentx", "val", "1000000000stake", "--chain-id", "verif-node", "--keyring-backend", "test")
    code, out, err = cli("genesis", "collect-gentxs")
    gp = os.path.join(home, "config", "genesis.json")
    g = json.load(open(gp))
    pre_bids, pre_vqs, pre_abs = [], [], []
    if preload:
        for addr, coins in preload["balances"].items():
            if preload["names"].get(addr) == "pool":
                continue
            cli("genesis", "add-genesis-account", addr, coins)
        g = json.load(open(gp))
        g["app_state"]["fundraising"] = preload["fundraising"]
        pre_bids = preload["fundraising"].get("bidList", [])
        pre_vqs = preload["fundraising"].get("vestingQueueList", [])
        pre_abs = preload["fundraising"].get("allowedBidderList", [])
    g["app_state"]["fundraising"]["params"]["auction_creation_fee"] = []
    json.dump(g, open(gp, "w"))
    cp = os.path.join(home, "config", "config.toml")
    t = open(cp).read().replace('timeout_commit = "5s"', 'timeout_commit = "300ms"')
    open(cp, "w").write(t)
    log = open(os.path.join(home, "node.log"), "w")
    proc = subprocess.Popen([binary, "start", "--home", home, "--minimum-gas-prices", "0stake", "--rpc.laddr", node,
                             "--grpc.address", "127.0.0.1:%d" % grpc, "--api.enable=false", "--p2p.laddr", "tcp://127.0.0.1:%d" % p2p,
                             "--grpc-web.enable=false"], stdout=log, stderr=subprocess.STDOUT,
                            env=dict(os.environ, DBUS_SESSION_BUS_ADDRESS="disabled:"))
    try:
        t0 = time.time()
        up = False
        while time.time() - t0 < blocks_timeout:
            code, out, err = cli("status", "--node", node, timeout=10)
            m = re.search(r'"latest_block_height":"(\d+)"', out + err)
            if code == 0 and m and int(m.group(1)) >= 2:
                up = True
                break
            time.sleep(0.5)
        recs.append({"kind": "node", "cmd": "start", "exit": 0 if up else 1, "note": "" if up else "no blocks within %ds" % blocks_timeout})
        if not up:
            return recs
        now = int(time.time())
        iso = lambda x: time.strftime("%Y-%m-%dT%H:%M:%SZ", time.gmtime(x))
        start, end, rel = now + 3600, now + 7200, now + 10800
        price = 1500000000000000000
        argv = ["create-fixed-price-auction", str(price), "1000denoma", "denomb",
                json.dumps({"release_time": iso(rel), "weight": "1000000000000000000"}), iso(start), iso(end)]
        code, out, err = cli("tx", "fundraising", *argv, "--from", "alice", "--keyring-backend", "test", "--chain-id", "verif-node",
                             "--node", node, "-y", "-o", "json")
        txok = code == 0 and '"code":0' in out.replace(" ", "")
        recs.append({"kind": "tx", "cmd": argv[0], "exit": 0 if txok else 1, "argv": argv, "note": (err or out)[-300:] if not txok else ""})
        new_id_ = str(len(preload["fundraising"].get("auctionList", []))) if preload else "0"
        t1 = time.time()
        while txok and time.time() - t1 < 60:     # wait until the transaction is in a block (the auction exists)
            c2, o2, e2 = cli("query", "fundraising", "get-auction", new_id_, "--node", node, "-o", "json", timeout=20)
            if c2 == 0 or "not found" not in (o2 + e2).lower():
                break
            time.sleep(0.5)
        else:
            if txok:
                raise RuntimeError("the transaction was accepted but not included in a block within 60 s (environment too slow?)")
        new_id = str(len(preload["fundraising"].get("auctionList", []))) if preload else "0"
        expected_auction = {"id": new_id, "auctioneer": alice, "start_price": "1.5", "selling_coin": "1000denoma", "paying_coin_denom": "denomb",
                            "status": "AUCTION_STATUS_STANDBY", "remaining": "1000denoma", "start": iso(start), "end": iso(end), "release": iso(rel)}

        def show_auction(a):
            b = a.get("base_auction", a)
            coin = lambda c: "%s%s" % (c.get("amount"), c.get("denom"))
            dec = lambda d: str(Fraction(d)).replace("3/2", "1.5")
            return {"id": str(b.get("id", "0")), "auctioneer": b.get("auctioneer"), "start_price": dec(b.get("start_price", "0")),
                    "selling_coin": coin(b.get("selling_coin", {})), "paying_coin_denom": b.get("paying_coin_denom"), "status": b.get("status"),
                    "remaining": coin(a.get("remaining_selling_coin", {})), "start": b.get("start_time"), "end": (b.get("end_times") or [None])[0],
                    "release": (b.get("vesting_schedules") or [{}])[0].get("release_time")}
        queries = [("params", [], lambda j: {"fee": j.get("params", {}).get("auction_creation_fee", []), "period": j.get("params", {}).get("extended_period")},
                    {"fee": [], "period": 1}),
                   ("get-auction", [new_id], lambda j: show_auction(j.get("auction", {})), expected_auction),
                   ("list-auction", ["--type", "AUCTION_TYPE_FIXED_PRICE", "--status", "AUCTION_STATUS_STANDBY"],
                    lambda j: [show_auction(a) for a in j.get("auction", [])], [expected_auction]),
                   ("list-allowed-bidder", [], lambda j: norm(j.get("allowed_bidder", [])), norm(pre_abs)),
                   ("list-bid", [], lambda j: norm(j.get("bid", [])), norm(pre_bids)),
                   ("list-vesting-queue", [], lambda j: norm(j.get("vestingQueue", j.get("vesting_queue", []))), norm(pre_vqs)),
                   ] + ([("get-allowed-bidder", [pre_abs[0].get("auction_id", "0"), pre_abs[0]["bidder"]], lambda j: norm(j.get("allowed_bidder", {})), norm(pre_abs[0])),
                         ("list-allowed-bidder", ["--auction-id", "1"], lambda j: norm(j.get("allowed_bidder", [])), norm([x for x in pre_abs if x.get("auction_id") == "1"])),
                         ("get-bid", [pre_bids[-1].get("auction_id", "0"), pre_bids[-1]["id"]], lambda j: norm(j.get("bid", {})), norm(pre_bids[-1])),
                         ("list-bid", ["--auction-id", "1", "--is-matched", "false"], lambda j: norm(j.get("bid", [])),
                          norm([x for x in pre_bids if x.get("auction_id") == "1" and not x.get("is_matched")])),
                         ] if preload and pre_abs and pre_bids else []) + [
                   ("get-auction", ["7"], None, "not found"),
                   ("get-bid", ["0", "77"], None, "not found"),
                   ("get-allowed-bidder", ["0", alice], None, "not found")]
        for cmd, args, view, exp in queries:
            code, out, err = cli("query", "fundraising", cmd, *args, "--node", node, "-o", "json")
            rec = {"kind": "query", "cmd": cmd, "argv": [cmd] + args, "exit": code, "note": (err or "")[-400:].strip(), "expected": json.dumps(exp, sort_keys=True), "answer": ""}
            if view is None:     # the object does not exist: the command must report that, not succeed
                rec["answer"] = json.dumps("not found") if code != 0 and ("not found" in (err + out).lower() or "notfound" in (err + out).lower()) else (out or err)[-200:]
                rec["exit"] = 0 if rec["answer"] == json.dumps("not found") else (code or 1)
            elif code == 0:
                try:
                    rec["answer"] = json.dumps(view(json.loads(out)), sort_keys=True)
                except Exception as e:
                    rec["answer"] = "unparsable: %s %s" % (e, out[:200])
            recs.append(rec)
        return recs
    finally:
        proc.terminate()
        try:
            proc.wait(timeout=15)
        except Exception:
            proc.kill()
        log.close()
