#!/usr/bin/env python3
"""fr-drive: seeded random behaviours that are NOT derived from the TLA+ model (direction code -> spec).
They use larger domains than the model-based generators (prices on a 1/100 grid, amounts up to a few thousand,
up to six users and four auctions, books of up to 12 bids, long extended-round chains, several instalments) and a
naive notion of validity, so that a good share of the inputs is rejected for reasons the generator does not track.
The recorded real-code traces are judged by the same monitor (clauses + conformance).

usage: drive.py <outdir> <seed> <n-behaviours> [depth]"""
import json, os, random, sys


def behaviour(rnd, depth):
    D = rnd.choice([10, 100, 100])
    nu = rnd.choice([4, 5, 6])
    users = ["u%d" % (i + 1) for i in range(nu)]
    na = rnd.choice([2, 3, 4])
    rich = lambda: {"dA": rnd.choice([200, 5000, 20000]), "dB": rnd.choice([300, 5000, 40000]), "dF": rnd.choice([0, 5, 50])}
    feed = rnd.choice(["dF", "dF", "dB", "dA"])
    params = {"createFee": {"d": feed, "n": rnd.choice([0, 1, 3])}, "bidFee": {"d": rnd.choice(["dB", "dF"]), "n": rnd.choice([0, 0, 1, 2])},
              "extPeriod": rnd.choice([0, 1, 1, 2, 3]) if rnd.random() < 0.95 else rnd.choice([106752, 172800])}   # beyond 2^63 ns
    acts = [{"a": "Init", "users": users, "na": na, "grid": D, "bal0": {u: rich() for u in users}, "params": params, "listeners": 0}]
    now = 0
    auctions = []   # minimal bookkeeping only: [type, start, end, payDenom, sellDenom, price, nbids]

    def price():
        return rnd.choice([1, D // 2, D, D + D // 2, 2 * D, rnd.randint(1, 3 * D), rnd.randint(1, 3 * D)])

    def sched(end):
        n = rnd.choice([0, 0, 1, 2, 3, 5])
        if n == 0:
            return []
        ws = [rnd.randint(1, D) for _ in range(n)]
        if rnd.random() < 0.85:   # normalise to sum D
            tot = sum(ws)
            ws = [max(1, w * D // tot) for w in ws]
            ws[-1] += D - sum(ws)
            if ws[-1] <= 0:
                ws = [D // n] * n
                ws[-1] += D - sum(ws)
        ts, t = [], end
        for _ in range(n):
            t += rnd.choice([1, 1, 2, 5])
            ts.append(t)
        if rnd.random() < 0.05:
            ts[0] = end
        return [{"t": t, "w": w} for t, w in zip(ts, ws)]
    for _ in range(depth):
        r = rnd.random()
        if r < 0.22:
            t = now + (rnd.choice([1, 1, 1, 2, 3, 7]) if params["extPeriod"] < 1000 or rnd.random() < 0.7 else params["extPeriod"])
            acts.append({"a": "Block", "t": t, "fault": 0})
            now = t
        elif r < 0.32 and len(auctions) < na:
            start = now + rnd.choice([-1, 0, 0, 1, 2])
            end = start + rnd.choice([0, 1, 2, 3, 5])
            sd, pd = rnd.choice([("dA", "dB"), ("dA", "dB"), ("dB", "dA"), ("dA", "dA")])
            by = rnd.choice(users[:2])
            amt = rnd.choice([1, 7, 10, 100, 999, 5000])
            if rnd.random() < 0.45:
                a = {"a": "CreateFixed", "by": by, "price": price(), "sellDenom": sd, "sellAmt": amt, "payDenom": pd, "start": start, "end": end, "sched": sched(end)}
                typ = "F"
            else:
                a = {"a": "CreateBatch", "by": by, "price": price(), "minPrice": rnd.choice([1, D // 2, D]), "sellDenom": sd, "sellAmt": amt, "payDenom": pd,
                     "start": start, "end": end, "sched": sched(end), "maxExt": rnd.choice([0, 1, 2, 5, 30, 31]), "rate": rnd.choice([1, D // 4, D // 2, D, 2 * D])}
                typ = "B"
            acts.append(a)
            if sd != pd and end > start and end >= now:
                auctions.append([typ, start, end, pd, sd, a["price"], 0])
        elif r < 0.45 and auctions:
            i = rnd.randrange(len(auctions))
            k = rnd.choice([1, 1, 2, 3])
            ents = [{"u": rnd.choice(users), "cap": rnd.choice([1, 5, 50, 500, 5000, 0])} for _ in range(k)]
            acts.append({"a": "AddAllowed", "id": i, "entries": ents})
        elif r < 0.50 and auctions:
            acts.append({"a": "UpdateAllowed", "id": rnd.randrange(len(auctions)), "u": rnd.choice(users), "cap": rnd.choice([1, 3, 40, 4000])})
        elif r < 0.80 and auctions:
            i = rnd.randrange(len(auctions))
            typ, start, end, pd, sd, pr, nb = auctions[i]
            if nb >= int(os.environ.get("DRIVE_MAXBIDS", "12")):
                continue
            u = rnd.choice(users)
            if typ == "F":
                a = {"a": "Bid", "by": u, "id": i, "type": "F", "price": pr if rnd.random() < 0.9 else price(), "denom": rnd.choice([pd, sd]), "amt": rnd.choice([1, 2, 3, 10, 33, 250])}
            else:
                ty = rnd.choice(["W", "M"]) if rnd.random() < 0.97 else "X"   # X: a bid type outside the documented ones
                a = {"a": "Bid", "by": u, "id": i, "type": ty, "price": price(), "denom": pd if ty == "W" else sd, "amt": rnd.choice([1, 2, 3, 10, 33, 250, 1000])}
                if rnd.random() < 0.05:
                    a["denom"] = sd if ty == "W" else pd
            acts.append(a)
            auctions[i][6] += 1
        elif r < 0.88 and auctions:
            i = rnd.randrange(len(auctions))
            nb = max(1, auctions[i][6])
            acts.append({"a": "Modify", "by": rnd.choice(users), "id": i, "bid": rnd.randint(1, nb), "price": price(), "denom": rnd.choice([auctions[i][3], auctions[i][4]]),
                         "amt": rnd.choice([1, 3, 10, 40, 300, 1500])})
        elif r < 0.91 and auctions:
            acts.append({"a": "Cancel", "by": rnd.choice(users[:3]), "id": rnd.randrange(len(auctions) + 1)})
        elif r < 0.94:
            k = rnd.choice(["sell", "pay", "vest"])
            acts.append({"a": "Donate", "by": rnd.choice(users), "to": "%s.%d" % (k, rnd.randrange(na)), "d": rnd.choice(["dA", "dB", "dF"]), "n": rnd.choice([1, 2, 9])})
        elif r < 0.96:
            acts.append({"a": "Genesis"})
        elif r < 0.98 and auctions:
            acts.append({"a": "MsgAddAllowed", "by": rnd.choice(users), "id": rnd.randrange(len(auctions)), "cap": 5})
        else:
            acts.append({"a": "UpdateParams", "auth": rnd.choice(["gov", "gov", users[0], "bad"]), "valid": rnd.random() < 0.9,
                         "createFee": {"d": "dF", "n": rnd.choice([0, 2])}, "bidFee": {"d": "dB", "n": rnd.choice([0, 1])}, "extPeriod": rnd.choice([0, 1, 2])})
    return acts


def main():
    out, seed, n = sys.argv[1], int(sys.argv[2]), int(sys.argv[3])
    depth = int(sys.argv[4]) if len(sys.argv) > 4 else 60
    os.makedirs(out, exist_ok=True)
    rnd = random.Random(seed)
    for i in range(n):
        json.dump(behaviour(rnd, depth), open(os.path.join(out, "drive_%d_%d.json" % (seed, i)), "w"))


if __name__ == "__main__":
    main()
