-------------------------------- MODULE FRCli --------------------------------
(***************************************************************************)
(* C20: the command line of the shipped node binary.  What the specification *)
(* contributes is (i) the table of commands the module must offer, with the  *)
(* request field every positional argument feeds, and (ii) the inputs of    *)
(* behaviours generated from the system specification together with the     *)
(* message each input stands for.  bin/cli_stage.py drives the binary built  *)
(* from /repo's working tree (start, --help of every command, `tx ...        *)
(* --generate-only' for every input, every query command against a recording *)
(* RPC endpoint -- the request it sends --, and on a single-node chain the   *)
(* query commands) and records what it observed; this module is evaluated by TLC   *)
(* on that record (FR_TRACE) and prints <<"FAIL", ...>> lines.               *)
(***************************************************************************)
EXTENDS Integers, Sequences, FiniteSets, TLC, Json, IOUtils

Rec == ndJsonDeserialize(IOEnv.FR_TRACE)

(* command -> ordered request fields fed by its positional arguments *)
TxTable == [
  CreateFixed |-> [cmd |-> "create-fixed-price-auction", args |-> <<"price", "sellCoin", "payDenom", "sched", "start", "end">>],
  CreateBatch |-> [cmd |-> "create-batch-auction", args |-> <<"price", "minPrice", "sellCoin", "payDenom", "sched", "maxExt", "rate", "start", "end">>],
  Cancel      |-> [cmd |-> "cancel-auction", args |-> <<"id">>],
  Bid         |-> [cmd |-> "place-bid", args |-> <<"id", "type", "price", "coin">>],
  Modify      |-> [cmd |-> "modify-bid", args |-> <<"id", "bid", "price", "coin">>] ]
TxCmds == {TxTable[k].cmd : k \in DOMAIN TxTable}
QueryCmds == {"params", "list-auction", "get-auction", "list-bid", "get-bid", "list-allowed-bidder",
              "get-allowed-bidder", "list-vesting-queue"}

(* the message an input stands for, in model terms *)
Fields(m) ==
  CASE m.a = "CreateFixed" ->
         [msg |-> "MsgCreateFixedPriceAuction", by |-> m.by, price |-> m.price, sellDenom |-> m.sellDenom, sellAmt |-> m.sellAmt,
          payDenom |-> m.payDenom, sched |-> m.sched, start |-> m.start, end |-> m.end]
    [] m.a = "CreateBatch" ->
         [msg |-> "MsgCreateBatchAuction", by |-> m.by, price |-> m.price, minPrice |-> m.minPrice, sellDenom |-> m.sellDenom,
          sellAmt |-> m.sellAmt, payDenom |-> m.payDenom, sched |-> m.sched, maxExt |-> m.maxExt, rate |-> m.rate,
          start |-> m.start, end |-> m.end]
    [] m.a = "Cancel" -> [msg |-> "MsgCancelAuction", by |-> m.by, id |-> m.id]
    [] m.a = "Bid" -> [msg |-> "MsgPlaceBid", by |-> m.by, id |-> m.id, type |-> m.type, price |-> m.price, denom |-> m.denom, amt |-> m.amt]
    [] m.a = "Modify" -> [msg |-> "MsgModifyBid", by |-> m.by, id |-> m.id, bid |-> m.bid, price |-> m.price, denom |-> m.denom, amt |-> m.amt]

(* query command -> RPC method, request field fed by each positional argument and by each flag.  Field numbers are   *)
(* those of the published query.proto (the wire contract); "n" = numeric (0 is not sent), "s" = string ("" not sent). *)
(* P(k) are the pagination flags of a listing whose request carries PageRequest in field k.                            *)
QSvc == "/fundraising.fundraising.v1.Query/"
F(k, t) == [f |-> k, t |-> t]
P(k) == ("page-offset" :> F(k \o ".2", "n")) @@ ("page-limit" :> F(k \o ".3", "n"))
NoFlags == [x \in {} |-> F("0", "n")]
QueryTable ==
     ("params"              :> [path |-> QSvc \o "Params", pos |-> <<>>, flags |-> NoFlags])
  @@ ("list-auction"        :> [path |-> QSvc \o "ListAuction", pos |-> <<>>,
                                flags |-> ("status" :> F("1", "s")) @@ ("type" :> F("2", "s")) @@ P("3")])
  @@ ("get-auction"         :> [path |-> QSvc \o "GetAuction", pos |-> <<F("1", "n")>>, flags |-> NoFlags])
  @@ ("list-allowed-bidder" :> [path |-> QSvc \o "ListAllowedBidder", pos |-> <<>>, flags |-> ("auction-id" :> F("1", "n")) @@ P("2")])
  @@ ("get-allowed-bidder"  :> [path |-> QSvc \o "GetAllowedBidder", pos |-> <<F("1", "n"), F("2", "s")>>, flags |-> NoFlags])
  @@ ("list-bid"            :> [path |-> QSvc \o "ListBid", pos |-> <<>>,
                                flags |-> ("auction-id" :> F("1", "n")) @@ ("bidder" :> F("2", "s")) @@ ("is-matched" :> F("3", "s")) @@ P("4")])
  @@ ("get-bid"             :> [path |-> QSvc \o "GetBid", pos |-> <<F("1", "n"), F("2", "n")>>, flags |-> NoFlags])
  @@ ("list-vesting-queue"  :> [path |-> QSvc \o "ListVestingQueue", pos |-> <<>>, flags |-> ("auction-id" :> F("1", "n")) @@ P("2")])

Sent(fd, v) == IF (fd.t = "n" /\ v = "0") \/ v = "" THEN {} ELSE {<<fd.f, v>>}
QSentOK(i) ==
  LET r == Rec[i] IN
  /\ r.exit = 0
  /\ r.cmd \in DOMAIN QueryTable
  /\ LET t == QueryTable[r.cmd] IN
     /\ r.path = t.path
     /\ Len(r.pos) = Len(t.pos)
     /\ \A j \in 1..Len(r.flags) : r.flags[j].n \in DOMAIN t.flags
     /\ {<<r.req[j].k, r.req[j].v>> : j \in 1..Len(r.req)}
          = UNION ({Sent(t.pos[j], r.pos[j]) : j \in 1..Len(r.pos)}
                   \cup {Sent(t.flags[r.flags[j].n], r.flags[j].v) : j \in 1..Len(r.flags)})

Recs(kind) == {i \in 1..Len(Rec) : Rec[i].kind = kind}

StartOK == \E i \in Recs("start") : Rec[i].exit = 0
HelpOK(cmd) == \E i \in Recs("help") : Rec[i].cmd = cmd /\ Rec[i].exit = 0 /\ Rec[i].mentions
SentOK(i) == Rec[i].exit = 0 /\ Rec[i].sent = Fields(Rec[i].act) /\ Rec[i].cmd = TxTable[Rec[i].act.a].cmd
QueryOK(i) == Rec[i].exit = 0 /\ Rec[i].answer = Rec[i].expected

VARIABLE l
CInit == l = 0
CNext ==
  /\ l < Len(Rec)
  /\ l' = l + 1
  /\ LET r == Rec[l + 1] IN
     /\ ((r.kind = "sent" /\ ~SentOK(l + 1)) => PrintT(<<"FAIL", "cli", l + 1, {"C20.sent"}>>))
     /\ ((r.kind = "query" /\ ~QueryOK(l + 1)) => PrintT(<<"FAIL", "cli", l + 1, {"C20.query"}>>))
     /\ ((r.kind = "qsent" /\ ~QSentOK(l + 1)) => PrintT(<<"FAIL", "cli", l + 1, {"C20.sent"}>>))
     /\ ((r.kind \in {"start", "node", "tx"} /\ r.exit # 0) => PrintT(<<"FAIL", "cli", l + 1, {"C20.start"}>>))
     /\ ((r.kind = "help" /\ (r.exit # 0 \/ ~r.mentions)) => PrintT(<<"FAIL", "cli", l + 1, {"C20.help"}>>))
  /\ (l + 1 = Len(Rec) =>
        /\ (~StartOK => PrintT(<<"FAIL", "cli", 0, {"C20.start"}>>))
        /\ (\A c \in TxCmds \cup QueryCmds : ~HelpOK(c) => PrintT(<<"FAIL", "cli", 0, {"C20.help"}>>))
        /\ PrintT(<<"DONE", Len(Rec)>>))
CSpec == CInit /\ [][CNext]_l
=============================================================================
