----------------------------- MODULE Fundraising -----------------------------
(***************************************************************************)
(* Functional core of the x/fundraising state machine (tendermint/          *)
(* fundraising).  Every Go entry point is one pure operator                 *)
(*     Do<Entry>(s, m)  ->  [st, ok, err, xfers, hooks]                     *)
(* over an explicit state record `s' and an input record `m', written in    *)
(* the order of checks / transfers / roundings of the Go function it        *)
(* mirrors (file and function named at each operator).  The shells          *)
(* (MC_*.tla, Gen.tla, Monitor.tla) wrap these operators in TLA+ actions.   *)
(*                                                                         *)
(* Numbers: a price, weight or rate value v stands for the 18-decimal       *)
(* LegacyDec v/D (D divides 10^18), so every expression below is exactly    *)
(* what the Go code computes for grid values (DESIGN.md 3.3).  Time is in    *)
(* ticks (1 tick = 1 day from 2030-01-01T00:00:00Z).                        *)
(***************************************************************************)
EXTENDS Integers, Sequences, FiniteSets, TLC, LifecycleOps

CONSTANTS
  UserSeq,   \* users as a sequence, in the order of their bech32 addresses
  NA,        \* escrow universe: the escrows of auction ids 0..NA-1 are projected
  D,         \* price grid denominator
  Dev        \* named deviations the code is known to have (known_findings.json)

Users  == {UserSeq[i] : i \in 1..Len(UserSeq)}
Denoms == {"dA", "dB", "dF"}
(* escrow account names "sell.0", "pay.0", "vest.0", ... ; a constant table, so that TLC builds *)
(* each string once                                                                            *)
EscTab == [k \in {"sell", "pay", "vest"} |-> [i \in 0..(NA - 1) |-> k \o "." \o ToString(i)]]
EscName(k, id) == EscTab[k][id]
SellAcc(id) == EscTab["sell"][id]
PayAcc(id)  == EscTab["pay"][id]
VestAcc(id) == EscTab["vest"][id]
EscAccts == {EscTab[k][i] : k \in {"sell", "pay", "vest"}, i \in 0..(NA - 1)}
Accts  == Users \cup {"pool"} \cup EscAccts

Min(a, b) == IF a < b THEN a ELSE b
Max(a, b) == IF a > b THEN a ELSE b
CeilDiv(a, b) == (a + b - 1) \div b          \* a >= 0, b > 0
Last(q) == q[Len(q)]

RECURSIVE SumSeq(_, _)
SumSeq(q, i) == IF i > Len(q) THEN 0 ELSE q[i] + SumSeq(q, i + 1)
Sum(q) == SumSeq(q, 1)
MapSeq(q, F(_)) == [i \in 1..Len(q) |-> F(q[i])]

----------------------------------------------------------------------------
(* types/bid.go: ConvertToSellingAmount / ConvertToPayingAmount *)
ToSelling(b, payDenom) == IF b.denom = payDenom THEN (b.amt * D) \div b.price ELSE b.amt
ToPaying(b, payDenom)  == IF b.denom = payDenom THEN b.amt ELSE CeilDiv(b.amt * b.price, D)
Reserve(b, payDenom)   == ToPaying(b, payDenom)

----------------------------------------------------------------------------
(* results *)
Fail(s, e) == [st |-> s, ok |-> FALSE, err |-> e, xfers |-> <<>>, hooks |-> <<>>]
X(f, t, d, n) == [f |-> f, t |-> t, d |-> d, n |-> n]
NonZero(xs) == SelectSeq(xs, LAMBDA x : x.n > 0)

RECURSIVE ApplyX(_, _, _)
ApplyX(b, xs, i) ==
  IF i > Len(xs) THEN [ok |-> TRUE, bal |-> b]
  ELSE LET x == xs[i] IN
       IF x.n <= 0 THEN ApplyX(b, xs, i + 1)
       ELSE IF b[x.f][x.d] < x.n THEN [ok |-> FALSE, bal |-> b]
       ELSE ApplyX([b EXCEPT ![x.f][x.d] = @ - x.n, ![x.t][x.d] = @ + x.n], xs, i + 1)

PoolIn(xs, d) == Sum(MapSeq(xs, LAMBDA x : IF x.t = "pool" /\ x.d = d /\ x.n > 0 THEN x.n ELSE 0))

(* bank transfers happen in order; the first one that cannot be paid rejects  *)
(* the whole operation (transaction boundary)                                 *)
Commit(s0, s1, xs, hk) ==
  LET r == ApplyX(s1.bal, xs, 1) IN
  IF ~r.ok THEN Fail(s0, "funds")
  ELSE [st    |-> [s1 EXCEPT !.bal = r.bal,
                             !.fp  = [d \in Denoms |-> s1.fp[d] + PoolIn(xs, d)]],
        ok    |-> TRUE, err |-> "", xfers |-> NonZero(xs), hooks |-> hk]

FeeX(u, fee) == IF fee.n > 0 THEN <<X(u, "pool", fee.d, fee.n)>> ELSE <<>>

Exists(s, id) == id \in 0..(Len(s.auctions) - 1)
Auc(s, id) == s.auctions[id + 1]

----------------------------------------------------------------------------
(* types/vesting.go: ValidateVestingSchedules *)
SchedOK(sched, end) ==
  /\ \A i \in 1..Len(sched) : sched[i].w > 0 /\ sched[i].w <= D /\ sched[i].t > end
  /\ \A i \in 1..(Len(sched) - 1) : sched[i].t < sched[i + 1].t
  /\ (Len(sched) > 0 => Sum(MapSeq(sched, LAMBDA e : e.w)) = D)

(* types/msgs.go: MsgCreateFixedPriceAuction / MsgCreateBatchAuction ValidateBasic *)
CreateVB(m) ==
  /\ m.by \in Users
  /\ m.price > 0
  /\ m.sellDenom \in Denoms /\ m.sellAmt > 0
  /\ m.sellDenom # m.payDenom
  /\ m.payDenom \in Denoms
  /\ m.end > m.start
  /\ (m.a = "CreateBatch" => m.minPrice > 0 /\ m.rate > 0)
  /\ SchedOK(m.sched, m.end)

(* keeper/auction.go: CreateFixedPriceAuction / CreateBatchAuction *)
CreateK(s, m) ==
  /\ ~(s.now > m.end)
  /\ Len(m.sched) <= 100
  /\ (m.a = "CreateBatch" => m.maxExt <= 30)

DoCreate(s, m) ==
  IF ~CreateVB(m) THEN Fail(s, "vb")
  ELSE IF ~CreateK(s, m) THEN Fail(s, "invalid")
  ELSE
    LET id  == s.aseq
        isB == m.a = "CreateBatch"
        a   == [id |-> id, type |-> IF isB THEN "B" ELSE "F", auctioneer |-> m.by,
                sellDenom |-> m.sellDenom, sellAmt |-> m.sellAmt, payDenom |-> m.payDenom,
                startPrice |-> m.price, minBidPrice |-> IF isB THEN m.minPrice ELSE 0,
                start |-> m.start, ends |-> <<m.end>>,
                status |-> IF m.start <= s.now THEN "Started" ELSE "StandBy",
                remaining |-> IF isB THEN 0 ELSE m.sellAmt,
                maxExt |-> IF isB THEN m.maxExt ELSE 0, extRate |-> IF isB THEN m.rate ELSE 0,
                sched |-> m.sched, matchedPrice |-> 0]
        s1  == [s EXCEPT !.aseq = @ + 1,
                         !.auctions = Append(@, a),
                         !.allowed = Append(@, [u \in Users |-> 0]),
                         !.bids = Append(@, <<>>),
                         !.bseq = Append(@, 0),
                         !.vqs = Append(@, <<>>),
                         !.lastMatched = Append(@, 0)]
        xs  == FeeX(m.by, s.params.createFee) \o <<X(m.by, SellAcc(id), m.sellDenom, m.sellAmt)>>
    IN Commit(s, s1, xs, <<>>)

----------------------------------------------------------------------------
(* keeper/auction.go: CancelAuction *)
CancelGuard(s, m) ==
  /\ m.by \in Users
  /\ Exists(s, m.id)
  /\ Auc(s, m.id).auctioneer = m.by
  /\ Auc(s, m.id).status = "StandBy"

DoCancel(s, m) ==
  IF m.by \notin Users THEN Fail(s, "vb")
  ELSE IF ~Exists(s, m.id) THEN Fail(s, "notfound")
  ELSE LET a == Auc(s, m.id) IN
    IF a.auctioneer # m.by THEN Fail(s, "unauthorized")
    ELSE IF a.status # "StandBy" THEN Fail(s, "status")
    ELSE
      LET xs == <<X(SellAcc(a.id), a.auctioneer, a.sellDenom, s.bal[SellAcc(a.id)][a.sellDenom])>>
          s1 == [s EXCEPT !.auctions[m.id + 1].status = "Cancelled",
                          !.auctions[m.id + 1].remaining = 0]
      IN Commit(s, s1, xs, <<>>)

----------------------------------------------------------------------------
(* keeper/auction.go: AddAllowedBidders / UpdateAllowedBidder (keeper API) *)
EntryOK(a, e) == e.u \in Users /\ e.cap > 0 /\ e.cap <= a.sellAmt

RECURSIVE SetEntries(_, _, _)
SetEntries(al, es, i) ==
  IF i > Len(es) THEN al ELSE SetEntries([al EXCEPT ![es[i].u] = es[i].cap], es, i + 1)

DoAddAllowed(s, m) ==
  IF Len(m.entries) = 0 THEN Fail(s, "empty")
  ELSE IF ~Exists(s, m.id) THEN Fail(s, "notfound")
  ELSE IF \E i \in 1..Len(m.entries) : ~EntryOK(Auc(s, m.id), m.entries[i]) THEN Fail(s, "entry")
  ELSE Commit(s, [s EXCEPT !.allowed[m.id + 1] = SetEntries(@, m.entries, 1)], <<>>, <<>>)

DoUpdateAllowed(s, m) ==
  IF ~Exists(s, m.id) THEN Fail(s, "notfound")
  ELSE IF m.u \notin Users THEN Fail(s, "notfound")
  ELSE IF s.allowed[m.id + 1][m.u] = 0 THEN Fail(s, "notfound")
  ELSE IF m.cap <= 0 THEN Fail(s, "cap")
  ELSE Commit(s, [s EXCEPT !.allowed[m.id + 1][m.u] = m.cap], <<>>, <<>>)

(* keeper/msg_server.go: AddAllowedBidder -- the testing-only message *)
DoMsgAddAllowed(s, m) ==
  IF m.by \notin Users THEN Fail(s, "vb")
  ELSE IF ~s.switchOn THEN Fail(s, "disabled")
  ELSE DoAddAllowed(s, [a |-> "AddAllowed", id |-> m.id, entries |-> <<[u |-> m.by, cap |-> m.cap]>>])

----------------------------------------------------------------------------
(* keeper/bid.go: PlaceBid + Validate{FixedPrice,BatchWorth,BatchMany}Bid *)
BidVB(m) ==
  /\ m.by \in Users
  /\ m.price > 0
  /\ m.denom \in Denoms /\ m.amt > 0
  /\ m.type \in {"F", "W", "M"}

BidderTotal(bids, u, payDenom) ==
  Sum(MapSeq(bids, LAMBDA b : IF b.bidder = u THEN ToSelling(b, payDenom) ELSE 0))

NewBid(s, m) == [denom |-> m.denom, amt |-> m.amt, price |-> m.price]

(* the type-specific part; TRUE iff the bid passes *)
BidTypeGuard(s, m) ==
  LET a   == Auc(s, m.id)
      cap == s.allowed[m.id + 1][m.by]
      q   == ToSelling(NewBid(s, m), a.payDenom)
  IN CASE m.type = "F" ->
            /\ a.type = "F"
            /\ m.denom \in {a.payDenom, a.sellDenom}
            /\ m.price = a.startPrice
            /\ q <= a.remaining
            /\ BidderTotal(s.bids[m.id + 1], m.by, a.payDenom) + q <= cap
       [] m.type = "W" ->
            /\ a.type = "B"
            /\ m.denom = a.payDenom
            /\ q <= cap
       [] m.type = "M" ->
            /\ a.type = "B"
            /\ m.denom = a.sellDenom
            /\ q <= cap

(* everything except sufficient funds *)
BidGuard(s, m) ==
  /\ BidVB(m)
  /\ Exists(s, m.id)
  /\ Auc(s, m.id).status = "Started"
  /\ (Auc(s, m.id).type = "B" => m.price >= Auc(s, m.id).minBidPrice)
  /\ s.allowed[m.id + 1][m.by] > 0
  /\ BidTypeGuard(s, m)

DoBid(s, m) ==
  IF ~BidVB(m) THEN Fail(s, "vb")
  ELSE IF ~Exists(s, m.id) THEN Fail(s, "notfound")
  ELSE LET a == Auc(s, m.id) IN
    IF a.status # "Started" THEN Fail(s, "status")
    ELSE IF a.type = "B" /\ m.price < a.minBidPrice THEN Fail(s, "minprice")
    ELSE IF s.allowed[m.id + 1][m.by] = 0 THEN Fail(s, "notallowed")
    ELSE IF ~BidTypeGuard(s, m) THEN Fail(s, "bidtype")
    ELSE
      LET nb  == NewBid(s, m)
          q   == ToSelling(nb, a.payDenom)
          bid == [id |-> s.bseq[m.id + 1] + 1, bidder |-> m.by, type |-> m.type,
                  price |-> m.price, denom |-> m.denom, amt |-> m.amt,
                  matched |-> IF m.type = "F"
                              THEN (IF "fixed_zero_matched" \in Dev THEN TRUE ELSE q > 0)
                              ELSE FALSE]
          xs  == FeeX(m.by, s.params.bidFee)
                 \o <<X(m.by, PayAcc(a.id), a.payDenom, Reserve(nb, a.payDenom))>>
          s1  == [s EXCEPT !.bseq[m.id + 1] = @ + 1,
                           !.bids[m.id + 1] = Append(@, bid),
                           !.auctions[m.id + 1].remaining = IF m.type = "F" THEN @ - q ELSE @]
      IN Commit(s, s1, xs, <<>>)

----------------------------------------------------------------------------
(* keeper/bid.go: ModifyBid *)
ModifyGuard(s, m) ==
  /\ m.by \in Users /\ m.price > 0 /\ m.denom \in Denoms /\ m.amt > 0
  /\ Exists(s, m.id)
  /\ Auc(s, m.id).status = "Started"
  /\ Auc(s, m.id).type = "B"
  /\ m.bid \in 1..Len(s.bids[m.id + 1])
  /\ LET b == s.bids[m.id + 1][m.bid] IN
       /\ b.bidder = m.by
       /\ m.price >= Auc(s, m.id).minBidPrice
       /\ b.denom = m.denom
       /\ m.price >= b.price /\ m.amt >= b.amt
       /\ ~(m.price = b.price /\ m.amt = b.amt)

DoModify(s, m) ==
  IF ~(m.by \in Users /\ m.price > 0 /\ m.denom \in Denoms /\ m.amt > 0) THEN Fail(s, "vb")
  ELSE IF ~Exists(s, m.id) THEN Fail(s, "notfound")
  ELSE LET a == Auc(s, m.id) IN
    IF a.status # "Started" THEN Fail(s, "status")
    ELSE IF a.type # "B" THEN Fail(s, "auctiontype")
    ELSE IF m.bid \notin 1..Len(s.bids[m.id + 1]) THEN Fail(s, "notfound")
    ELSE LET b == s.bids[m.id + 1][m.bid] IN
      IF b.bidder # m.by THEN Fail(s, "unauthorized")
      ELSE IF m.price < a.minBidPrice THEN Fail(s, "minprice")
      ELSE IF b.denom # m.denom THEN Fail(s, "denom")
      ELSE IF m.price < b.price \/ m.amt < b.amt THEN Fail(s, "invalid")
      ELSE IF m.price = b.price /\ m.amt = b.amt THEN Fail(s, "invalid")
      ELSE
        LET nb   == [b EXCEPT !.price = m.price, !.amt = m.amt]
            diff == Reserve(nb, a.payDenom) - Reserve(b, a.payDenom)
            xs   == <<X(m.by, PayAcc(a.id), a.payDenom, diff)>>
            s1   == [s EXCEPT !.bids[m.id + 1][m.bid] = nb]
        IN Commit(s, s1, xs, <<>>)

----------------------------------------------------------------------------
(* types/utils.go BidsByPrice (+ SortBids: for <= 12 bids Go's sort.Slice is a *)
(* stable insertion sort, so equal prices keep id order), types/match.go Match, *)
(* keeper/match.go CalculateBatchAllocation                                    *)
PriceSet(bids) == {bids[i].price : i \in 1..Len(bids)}

RECURSIVE DescSeq(_)
DescSeq(S) == IF S = {} THEN <<>>
              ELSE LET mx == CHOOSE x \in S : \A y \in S : y <= x IN <<mx>> \o DescSeq(S \ {mx})

WorthQty(amt, mp) == (amt * D) \div mp
BidQty(b, mp) == IF b.type = "W" THEN WorthQty(b.amt, mp) ELSE b.amt

ZeroU == [u \in Users |-> 0]

(* Match(matchPrice, ...): walk the bids priced >= mp, highest price first, id order *)
(* within a price; stop with "does not fit" as soon as supply would be exceeded      *)
RECURSIVE MatchWalk(_, _, _, _, _)
MatchWalk(mp, el, i, S, acc) ==
  IF i > Len(el) THEN acc
  ELSE LET b == el[i]
           m == Min(BidQty(b, mp), acc.room[b.bidder])
       IN IF acc.total + m > S THEN [acc EXCEPT !.fits = FALSE]
          ELSE MatchWalk(mp, el, i + 1, S,
                 [acc EXCEPT !.total = @ + m,
                             !.room[b.bidder] = @ - m,
                             !.got[b.bidder] = @ + m,
                             !.pay[b.bidder] = @ + CeilDiv(mp * m, D),
                             !.matched = IF m > 0 THEN @ \cup {b.id} ELSE @])

Eligible(bids, prices, mp) ==
  LET RECURSIVE Cat(_)
      Cat(k) == IF k > Len(prices) \/ prices[k] < mp THEN <<>>
                ELSE SelectSeq(bids, LAMBDA b : b.price = prices[k]) \o Cat(k + 1)
  IN Cat(1)

MatchAt(mp, bids, prices, caps, S) ==
  MatchWalk(mp, Eligible(bids, prices, mp), 1, S,
            [fits |-> TRUE, mp |-> mp, total |-> 0, room |-> caps, got |-> ZeroU,
             pay |-> ZeroU, matched |-> {}])

NoMatch(caps) == [fits |-> FALSE, mp |-> 0, total |-> 0, room |-> caps, got |-> ZeroU,
                  pay |-> ZeroU, matched |-> {}]

(* sort.Search(n, f): smallest h in [0,n) with f(h), probing prices[n-1-h] (0-based) *)
(* The result kept is that of the last probe that returned true.                      *)
(* Dev "search_by_matched": the original predicate ("something matched") instead of   *)
(* "fits", which is not monotone when a worth bid converts to zero coins.             *)
Pred(r) == IF "search_by_matched" \in Dev THEN r.fits /\ r.total > 0 ELSE r.fits

RECURSIVE BinSearch(_, _, _, _, _, _, _)
BinSearch(i, j, best, bids, prices, caps, S) ==
  IF i >= j THEN best
  ELSE LET h == (i + j) \div 2
           r == MatchAt(prices[Len(prices) - h], bids, prices, caps, S)
       IN IF Pred(r) THEN BinSearch(i, h, r, bids, prices, caps, S)
          ELSE BinSearch(h + 1, j, best, bids, prices, caps, S)

Clearing(bids, caps, S) ==
  LET prices == DescSeq(PriceSet(bids))
  IN BinSearch(0, Len(prices), NoMatch(caps), bids, prices, caps, S)

----------------------------------------------------------------------------
(* BeginBlocker.  The accumulator carries the running state, the ordered transfers *)
(* and a failure flag (a transfer the escrow cannot pay).                          *)
Pay(acc, x) ==
  IF x.n <= 0 THEN acc
  ELSE IF acc.st.bal[x.f][x.d] < x.n THEN [acc EXCEPT !.ok = FALSE]
  ELSE [acc EXCEPT !.st.bal[x.f][x.d] = @ - x.n, !.st.bal[x.t][x.d] = @ + x.n,
                   !.xs = Append(@, x)]

RECURSIVE PayEach(_, _, _, _, _)
(* one transfer per user in address order: amount amt[u] from account f in denom d *)
PayEach(acc, k, f, d, amt) ==
  IF k > Len(UserSeq) THEN acc
  ELSE PayEach(Pay(acc, X(f, UserSeq[k], d, amt[UserSeq[k]])), k + 1, f, d, amt)

(* keeper/vesting.go: ApplyVestingSchedules *)
RECURSIVE FloorShares(_, _, _)
FloorShares(P, sched, i) ==
  IF i >= Len(sched) THEN <<>> ELSE <<(P * sched[i].w) \div D>> \o FloorShares(P, sched, i + 1)

VestingQueues(P, sched) ==
  LET fl == FloorShares(P, sched, 1)
      n  == Len(sched)
  IN [i \in 1..n |-> [t |-> sched[i].t,
                      amt |-> IF i < n THEN fl[i] ELSE P - Sum(fl),
                      released |-> FALSE]]

ApplyVesting(acc, idx) ==
  LET a == acc.st.auctions[idx]
      P == acc.st.bal[PayAcc(a.id)][a.payDenom]
  IN IF Len(a.sched) = 0
     THEN LET acc1 == Pay(acc, X(PayAcc(a.id), a.auctioneer, a.payDenom, P))
          IN [acc1 EXCEPT !.st.auctions[idx].status = "Finished"]
     ELSE LET acc1 == Pay(acc, X(PayAcc(a.id), VestAcc(a.id), a.payDenom, P))
          IN [acc1 EXCEPT !.st.auctions[idx].status = "Vesting",
                          !.st.vqs[idx] = VestingQueues(P, a.sched)]

RefundRemainingSelling(acc, idx) ==
  LET a == acc.st.auctions[idx]
  IN Pay(acc, X(SellAcc(a.id), a.auctioneer, a.sellDenom, acc.st.bal[SellAcc(a.id)][a.sellDenom]))

(* keeper/auction.go: CloseFixedPriceAuction (+ keeper/match.go CalculateFixedPriceAllocation) *)
CloseFixed(acc, idx) ==
  LET a    == acc.st.auctions[idx]
      bids == acc.st.bids[idx]
      got  == [u \in Users |-> BidderTotal(bids, u, a.payDenom)]
      acc1 == PayEach(acc, 1, SellAcc(a.id), a.sellDenom, got)
      acc2 == RefundRemainingSelling(acc1, idx)
  IN ApplyVesting(acc2, idx)

ReservedBy(bids, u, payDenom) ==
  Sum(MapSeq(bids, LAMBDA b : IF b.bidder = u THEN Reserve(b, payDenom) ELSE 0))

SettleBatch(acc, idx, cl) ==
  LET a      == acc.st.auctions[idx]
      bids   == acc.st.bids[idx]
      refund == [u \in Users |-> ReservedBy(bids, u, a.payDenom) - cl.pay[u]]
      acc1   == PayEach(acc, 1, SellAcc(a.id), a.sellDenom, cl.got)
      acc2   == RefundRemainingSelling(acc1, idx)
      acc3   == PayEach(acc2, 1, PayAcc(a.id), a.payDenom, refund)
      acc4   == IF \E u \in Users : refund[u] < 0 THEN [acc3 EXCEPT !.ok = FALSE] ELSE acc3
      acc5   == IF "matched_price_unset" \in Dev THEN acc4
                ELSE [acc4 EXCEPT !.st.auctions[idx].matchedPrice = IF cl.total > 0 THEN cl.mp ELSE 0]
  IN ApplyVesting(acc5, idx)

ExtendRound(acc, idx) ==
  [acc EXCEPT !.st.auctions[idx].ends = Append(@, Last(@) + acc.st.params.extPeriod)]

(* keeper/auction.go: CloseBatchAuction.  CalculateBatchAllocation writes the matched *)
(* flags and the matched-bid count at EVERY end time, also when the round is extended *)
ExtendDecision(a, lastOld, n) ==
  IF Len(a.ends) = a.maxExt + 1 THEN FALSE
  ELSE IF lastOld = 0 THEN TRUE
  ELSE (lastOld - n) * D >= a.extRate * lastOld

CloseBatch(acc, idx) ==
  LET a       == acc.st.auctions[idx]
      bids    == acc.st.bids[idx]
      lastOld == acc.st.lastMatched[idx]
      cl      == Clearing(bids, acc.st.allowed[idx], a.sellAmt)
      n       == Cardinality(cl.matched)
      flagged == [i \in 1..Len(bids) |->
                    [bids[i] EXCEPT !.matched =
                        IF "stale_matched_flags" \in Dev
                        THEN (@ \/ bids[i].id \in cl.matched)
                        ELSE bids[i].id \in cl.matched]]
      acc1    == [acc EXCEPT !.st.bids[idx] = flagged, !.st.lastMatched[idx] = n]
  IN IF ExtendDecision(a, lastOld, n) THEN ExtendRound(acc1, idx) ELSE SettleBatch(acc1, idx, cl)

(* keeper/auction.go: ReleaseVestingPayingCoin *)
RECURSIVE Release(_, _, _)
Release(acc, idx, i) ==
  LET a == acc.st.auctions[idx]
      q == acc.st.vqs[idx]
  IN IF i > Len(q) THEN acc
     ELSE IF q[i].t <= acc.st.now /\ ~q[i].released
          THEN LET acc1 == Pay(acc, X(VestAcc(a.id), a.auctioneer, a.payDenom, q[i].amt))
                   acc2 == [acc1 EXCEPT !.st.vqs[idx][i].released = TRUE]
                   acc3 == IF i = Len(q) THEN [acc2 EXCEPT !.st.auctions[idx].status = "Finished"] ELSE acc2
               IN Release(acc3, idx, i + 1)
          ELSE Release(acc, idx, i + 1)

(* keeper/execution.go + keeper/abci.go *)
BlockAuction(acc, idx) ==
  LET a == acc.st.auctions[idx]
  IN CASE a.status = "StandBy" ->
            IF a.start <= acc.st.now THEN [acc EXCEPT !.st.auctions[idx].status = "Started"] ELSE acc
       [] a.status = "Started" ->
            IF Last(a.ends) <= acc.st.now
            THEN (IF a.type = "F" THEN CloseFixed(acc, idx) ELSE CloseBatch(acc, idx))
            ELSE acc
       [] a.status = "Vesting" -> Release(acc, idx, 1)
       [] OTHER -> acc

RECURSIVE Walk(_, _)
Walk(acc, idx) ==
  IF idx > Len(acc.st.auctions) THEN acc
  ELSE LET r == BlockAuction(acc, idx) IN
       \* Dev "block_rejects_terminal" (original abci.go): the error variable is overwritten by
       \* every auction, so the hook fails iff the LAST auction visited is finished/cancelled
       Walk(IF "block_rejects_terminal" \in Dev
            THEN [r EXCEPT !.termerr = acc.st.auctions[idx].status \in {"Finished", "Cancelled"}]
            ELSE r, idx + 1)

BlockRun(s, t) == Walk([st |-> [s EXCEPT !.now = t], xs |-> <<>>, ok |-> TRUE, termerr |-> FALSE], 1)

DoBlock(s, m) ==
  LET r == BlockRun(s, m.t) IN
  IF ~r.ok THEN Fail(s, "funds")
  ELSE IF r.termerr THEN Fail(s, "status")
  ELSE IF m.fault > 0 /\ m.fault <= Len(r.xs) THEN Fail(s, "fault")
  ELSE [st |-> r.st, ok |-> TRUE, err |-> "", xfers |-> r.xs, hooks |-> <<>>]

----------------------------------------------------------------------------
(* a third party sends coins straight to an account (usually an escrow) *)
DoDonate(s, m) ==
  IF m.by \notin Users \/ m.n <= 0 THEN Fail(s, "vb")
  ELSE Commit(s, s, <<X(m.by, m.to, m.d, m.n)>>, <<>>)

(* an empty fee (no coins) has no denomination: it is written [d |-> "dF", n |-> 0] *)
NormFee(f) == IF f.n <= 0 THEN [d |-> "dF", n |-> 0] ELSE f
NormParams(p) == [createFee |-> NormFee(p.createFee), bidFee |-> NormFee(p.bidFee), extPeriod |-> p.extPeriod]

(* keeper/msg_update_params.go *)
DoUpdateParams(s, m) ==
  IF m.auth # "gov" THEN Fail(s, "authority")
  ELSE IF ~m.valid THEN Fail(s, "params")
  ELSE Commit(s, [s EXCEPT !.params = NormParams([createFee |-> m.createFee, bidFee |-> m.bidFee,
                                                  extPeriod |-> m.extPeriod])], <<>>, <<>>)

(* module/genesis.go: ExportGenesis ; wipe ; InitGenesis *)
DoGenesis(s, m) ==
  LET s1 == IF "genesis_drops_lastMatched" \in Dev
            THEN [s EXCEPT !.lastMatched = [i \in 1..Len(@) |-> 0]] ELSE s
  IN [st |-> s1, ok |-> TRUE, err |-> "", xfers |-> <<>>, hooks |-> <<>>]

(* keeper/query_*.go.  A request field at its zero value ("" or auction id 0 in a listing) means *)
(* "not set"; a listing returns, in store order, exactly the stored objects that satisfy the set  *)
(* fields.  Answers are sequences (empty = not found) of records / keys in model terms.           *)
Flat(n, F(_)) == LET f[i \in 0..n] == IF i = 0 THEN <<>> ELSE f[i - 1] \o F(i) IN f[n]
CatAuctions(s, dummy, F(_, _)) == Flat(Len(s.auctions), LAMBDA i : F(s, i))

(* the whole collection a listing iterates over, in store (key) order, as the records the listing displays *)
ListRaw(s, m) ==
  CASE m.q = "ListAuction" -> s.auctions
    [] m.q = "ListBid" ->
         CatAuctions(s, 1, LAMBDA st, i : MapSeq(st.bids[i], LAMBDA b : [aid |-> st.auctions[i].id, id |-> b.id, bidder |-> b.bidder, matched |-> b.matched]))
    [] m.q = "ListVestingQueue" ->
         CatAuctions(s, 1, LAMBDA st, i : MapSeq(st.vqs[i], LAMBDA v : [aid |-> st.auctions[i].id, t |-> v.t, amt |-> v.amt, released |-> v.released]))
    [] m.q = "ListAllowedBidder" ->
         CatAuctions(s, 1, LAMBDA st, i : MapSeq(SelectSeq(UserSeq, LAMBDA u : st.allowed[i][u] > 0),
                                                  LAMBDA u : [aid |-> st.auctions[i].id, u |-> u, cap |-> st.allowed[i][u]]))

(* does a stored object satisfy the set fields of the request *)
ListMatch(m, x) ==
  CASE m.q = "ListAuction" -> (m.status = "" \/ x.status = m.status) /\ (m.type = "" \/ x.type = m.type)
    [] m.q = "ListBid" -> (m.id = 0 \/ x.aid = m.id) /\ (m.bidder = "" \/ x.bidder = m.bidder)
                          /\ (m.matched = "" \/ (m.matched = "true") = x.matched)
    [] m.q \in {"ListVestingQueue", "ListAllowedBidder"} -> m.id = 0 \/ x.aid = m.id

ListShow(m, x) == IF m.q = "ListBid" THEN [aid |-> x.aid, id |-> x.id] ELSE x

(* Pagination (query.CollectionFilteredPaginate, offset mode): `offset' stored objects are skipped first, then up to  *)
(* `limit' objects that satisfy the request are returned (limit 0 = the default of 100, and it turns the total count *)
(* on); total = number of satisfying objects after the skipped ones + offset; a next page is announced iff some      *)
(* stored object follows the one that completed the page.                                                            *)
IsListing(m) == m.q \in {"ListAuction", "ListBid", "ListVestingQueue", "ListAllowedBidder"}
PLimit(m) == IF "limit" \in DOMAIN m /\ m.limit > 0 THEN m.limit ELSE 100
POffset(m) == IF "offset" \in DOMAIN m THEN m.offset ELSE 0
PCount(m) == ("limit" \notin DOMAIN m) \/ m.limit = 0 \/ m.total
ListRest(s, m) == LET raw == ListRaw(s, m) IN SubSeq(raw, POffset(m) + 1, Len(raw))
ListHits(s, m) == SelectSeq(ListRest(s, m), LAMBDA x : ListMatch(m, x))

QueryAll(s, m) ==
  CASE m.q = "GetAuction" -> IF Exists(s, m.id) THEN <<Auc(s, m.id)>> ELSE <<>>
    [] m.q = "GetBid" ->
         IF Exists(s, m.id) /\ m.bid \in 1..Len(s.bids[m.id + 1]) THEN <<s.bids[m.id + 1][m.bid]>> ELSE <<>>
    [] m.q = "GetAllowedBidder" ->
         IF Exists(s, m.id) /\ m.u \in Users /\ s.allowed[m.id + 1][m.u] > 0
         THEN <<[aid |-> m.id, u |-> m.u, cap |-> s.allowed[m.id + 1][m.u]]>> ELSE <<>>
    [] m.q = "Params" -> <<s.params>>
    [] OTHER -> MapSeq(SelectSeq(ListRaw(s, m), LAMBDA x : ListMatch(m, x)), LAMBDA x : ListShow(m, x))

QueryAnswer(s, m) ==
  IF IsListing(m)
  THEN LET hits == ListHits(s, m) IN MapSeq(SubSeq(hits, 1, Min(Len(hits), PLimit(m))), LAMBDA x : ListShow(m, x))
  ELSE QueryAll(s, m)

PageInfo(s, m) ==
  IF ~IsListing(m) THEN [total |-> 0, more |-> FALSE]
  \* an empty collection, or an offset beyond its end, gives an empty response without a count
  ELSE IF Len(ListRaw(s, m)) = 0 \/ POffset(m) > Len(ListRaw(s, m)) THEN [total |-> 0, more |-> FALSE]
  ELSE LET rest == ListRest(s, m)
           hits == ListHits(s, m)
           \* position in rest of the object that completed the page (0 if the page was never completed)
           P == {k \in 1..Len(rest) : Len(SelectSeq(SubSeq(rest, 1, k), LAMBDA x : ListMatch(m, x))) = PLimit(m)}
           pos == IF P = {} THEN 0 ELSE CHOOSE k \in P : \A j \in P : k <= j
       IN [total |-> IF PCount(m) THEN Len(hits) + POffset(m) ELSE 0, more |-> pos > 0 /\ pos < Len(rest)]

DoQuery(s, m) ==
  [st |-> s, ok |-> (m.q \notin {"GetAuction", "GetBid", "GetAllowedBidder"} \/ QueryAnswer(s, m) # <<>>),
   err |-> "", xfers |-> <<>>, hooks |-> <<>>]

----------------------------------------------------------------------------
Do0(s, m) ==
  CASE m.a \in {"CreateFixed", "CreateBatch"} -> DoCreate(s, m)
    [] m.a = "Cancel"        -> DoCancel(s, m)
    [] m.a = "AddAllowed"    -> DoAddAllowed(s, m)
    [] m.a = "UpdateAllowed" -> DoUpdateAllowed(s, m)
    [] m.a = "MsgAddAllowed" -> DoMsgAddAllowed(s, m)
    [] m.a = "Bid"           -> DoBid(s, m)
    [] m.a = "Modify"        -> DoModify(s, m)
    [] m.a = "Block"         -> DoBlock(s, m)
    [] m.a = "Donate"        -> DoDonate(s, m)
    [] m.a = "UpdateParams"  -> DoUpdateParams(s, m)
    [] m.a = "Genesis"       -> DoGenesis(s, m)
    [] m.a = "Query"         -> DoQuery(s, m)


----------------------------------------------------------------------------
(* Extension hooks (keeper/hooks.go, types/hooks.go MultiFundraisingHooks, module.go      *)
(* InvokeSetHooks).  s.nl listeners are registered; every hook site of a successful        *)
(* operation calls listeners 1..nl in order with the values the operation used.  An input  *)
(* may name one hook and one listener position at which that listener returns an error:    *)
(* the dispatcher stops there and the operation fails with nothing committed.              *)
HF(m) == IF "hookFail" \in DOMAIN m THEN m.hookFail ELSE ""
HP(m) == IF "hookPos" \in DOMAIN m THEN m.hookPos ELSE 0

CreateArgs(m, id) ==
  IF m.a = "CreateFixed"
  THEN [id |-> id, by |-> m.by, price |-> m.price, sellDenom |-> m.sellDenom, sellAmt |-> m.sellAmt,
        payDenom |-> m.payDenom, sched |-> m.sched, start |-> m.start, end |-> m.end]
  ELSE [id |-> id, by |-> m.by, price |-> m.price, minPrice |-> m.minPrice, sellDenom |-> m.sellDenom,
        sellAmt |-> m.sellAmt, payDenom |-> m.payDenom, sched |-> m.sched, maxExt |-> m.maxExt,
        rate |-> m.rate, start |-> m.start, end |-> m.end]

Site(h, args) == [h |-> h, args |-> args]

SettleSite(s, idx) ==
  LET a    == s.auctions[idx]
      bids == s.bids[idx]
  IN IF a.type = "F"
     THEN Site("BeforeSellingCoinsAllocated",
               [id |-> a.id, alloc |-> [u \in Users |-> BidderTotal(bids, u, a.payDenom)], refund |-> ZeroU])
     ELSE LET cl == Clearing(bids, s.allowed[idx], a.sellAmt) IN
          Site("BeforeSellingCoinsAllocated",
               [id |-> a.id, alloc |-> cl.got,
                refund |-> [u \in Users |-> ReservedBy(bids, u, a.payDenom) - cl.pay[u]]])

RECURSIVE BlockSites(_, _, _)
BlockSites(s, r, idx) ==
  IF idx > Len(s.auctions) THEN <<>>
  ELSE (IF s.auctions[idx].status = "Started" /\ r.st.auctions[idx].status \in {"Vesting", "Finished"}
        THEN <<SettleSite(s, idx)>> ELSE <<>>) \o BlockSites(s, r, idx + 1)

(* the hook sites of a successful operation, in call order *)
HookSites(s, m, r) ==
  CASE m.a = "CreateFixed" ->
         <<Site("BeforeFixedPriceAuctionCreated", CreateArgs(m, -1)), Site("AfterFixedPriceAuctionCreated", CreateArgs(m, s.aseq))>>
    [] m.a = "CreateBatch" ->
         <<Site("BeforeBatchAuctionCreated", CreateArgs(m, -1)), Site("AfterBatchAuctionCreated", CreateArgs(m, s.aseq))>>
    [] m.a = "Cancel" -> <<Site("BeforeAuctionCanceled", [id |-> m.id, by |-> m.by])>>
    [] m.a = "Bid" ->
         <<Site("BeforeBidPlaced", [id |-> m.id, bid |-> s.bseq[m.id + 1] + 1, by |-> m.by, type |-> m.type,
                                    price |-> m.price, denom |-> m.denom, amt |-> m.amt])>>
    [] m.a = "Modify" ->
         <<Site("BeforeBidModified", [id |-> m.id, bid |-> m.bid, by |-> m.by, type |-> s.bids[m.id + 1][m.bid].type,
                                      price |-> m.price, denom |-> m.denom, amt |-> m.amt])>>
    [] m.a = "AddAllowed" ->
         <<Site("BeforeAllowedBiddersAdded",
                [entries |-> [i \in 1..Len(m.entries) |-> [id |-> m.id, u |-> m.entries[i].u, cap |-> m.entries[i].cap]]])>>
    [] m.a = "UpdateAllowed" -> <<Site("BeforeAllowedBidderUpdated", [id |-> m.id, u |-> m.u, cap |-> m.cap])>>
    [] m.a = "Block" -> BlockSites(s, r, 1)
    [] OTHER -> <<>>

IsAfterHook(h) == h \in {"AfterFixedPriceAuctionCreated", "AfterBatchAuctionCreated"}
CallsOf(site, n) == [l \in 1..n |-> [h |-> site.h, l |-> l, args |-> site.args, seen |-> IsAfterHook(site.h)]]

RECURSIVE AllCalls(_, _, _)
AllCalls(sites, k, n) == IF k > Len(sites) THEN <<>> ELSE CallsOf(sites[k], n) \o AllCalls(sites, k + 1, n)

FirstSite(sites, h) ==
  LET S == {k \in 1..Len(sites) : sites[k].h = h} IN
  IF S = {} THEN 0 ELSE CHOOSE k \in S : \A j \in S : k <= j

WithHooks(s, m, r) ==
  IF ~r.ok THEN r
  ELSE LET sites == HookSites(s, m, r)
           k     == IF HF(m) = "" \/ HP(m) < 1 \/ HP(m) > s.nl THEN 0 ELSE FirstSite(sites, HF(m))
       IN IF k = 0 THEN [r EXCEPT !.hooks = AllCalls(sites, 1, s.nl)]
          ELSE [Fail(s, "hook") EXCEPT !.hooks = AllCalls(SubSeq(sites, 1, k - 1), 1, s.nl) \o CallsOf(sites[k], HP(m))]

(* TRUE iff the listener failure named in the input is reached by this operation *)
Vetoed(s, m) ==
  /\ s.nl > 0 /\ HF(m) # "" /\ HP(m) >= 1 /\ HP(m) <= s.nl
  /\ LET r == Do0(s, m) IN r.ok /\ FirstSite(HookSites(s, m, r), HF(m)) > 0

Do(s, m) == IF s.nl = 0 THEN Do0(s, m) ELSE WithHooks(s, m, Do0(s, m))

(* Module events (spec/06_events.md, keeper/auction.go, keeper/bid.go): one event per successful create, *)
(* cancel and place-bid, with the values the operation used; nothing else emits module events.          *)
EventsOf(s, m, r) ==
  IF ~r.ok THEN <<>>
  ELSE CASE m.a = "CreateFixed" ->
              <<[type |-> "create_fixed_price_auction", id |-> s.aseq, by |-> m.by, sell |-> SellAcc(s.aseq), pay |-> PayAcc(s.aseq),
                 vest |-> VestAcc(s.aseq), price |-> m.price, sellDenom |-> m.sellDenom, sellAmt |-> m.sellAmt, payDenom |-> m.payDenom,
                 remaining |-> m.sellAmt, start |-> m.start, end |-> m.end, status |-> IF m.start <= s.now THEN "Started" ELSE "StandBy"]>>
         [] m.a = "CreateBatch" ->
              <<[type |-> "create_batch_auction", id |-> s.aseq, by |-> m.by, sell |-> SellAcc(s.aseq), pay |-> PayAcc(s.aseq),
                 vest |-> VestAcc(s.aseq), price |-> m.price, sellDenom |-> m.sellDenom, sellAmt |-> m.sellAmt, payDenom |-> m.payDenom,
                 start |-> m.start, end |-> m.end, status |-> IF m.start <= s.now THEN "Started" ELSE "StandBy",
                 minPrice |-> m.minPrice, maxExt |-> m.maxExt, rate |-> m.rate]>>
         [] m.a = "Cancel" -> <<[type |-> "cancel_auction", id |-> m.id]>>
         [] m.a = "Bid" -> <<[type |-> "place_bid", id |-> m.id, by |-> m.by, price |-> m.price, denom |-> m.denom, amt |-> m.amt]>>
         [] OTHER -> <<>>

InitState(bal0, params0, switch0) ==
  [now |-> 0, params |-> NormParams(params0), aseq |-> 0, auctions |-> <<>>, allowed |-> <<>>,
   bids |-> <<>>, bseq |-> <<>>, vqs |-> <<>>, lastMatched |-> <<>>,
   bal |-> [x \in Accts |-> IF x \in Users THEN bal0[x] ELSE [d \in Denoms |-> 0]],
   fp |-> [d \in Denoms |-> 0],
   supply |-> [d \in Denoms |-> Sum([k \in 1..Len(UserSeq) |-> bal0[UserSeq[k]][d]])],
   switchOn |-> switch0, nl |-> 0]

NoFee == [d |-> "dF", n |-> 0]

RECURSIVE SumFn(_, _)
SumFn(f, S) == IF S = {} THEN 0 ELSE LET x == CHOOSE y \in S : TRUE IN f[x] + SumFn(f, S \ {x})
SumOver(S, F(_)) == SumFn([x \in S |-> F(x)], S)
TotalBal(s, d) == SumOver(Accts, LAMBDA x : s.bal[x][d])
AllTotal(bids, payDenom) == Sum(MapSeq(bids, LAMBDA b : ToSelling(b, payDenom)))

(* keeper/invariants.go: the three invariants the module registers (comparisons with >=, over spendable balances).   *)
(* The names of the broken ones, in registration order.  They are weaker than C01 (which demands equality up to     *)
(* donations); the design-level check is ModuleInvariantsHold in every reachable state, the conformance check is    *)
(* that the real functions answer the same on the real state (monitor field "modinv").                              *)
ModuleInvariantsBroken(s) ==
  LET n == Len(s.auctions)
      sellBad == \E i \in 1..n : LET a == s.auctions[i] IN
                   a.status = "Started" /\ s.bal[SellAcc(a.id)][a.sellDenom] < a.sellAmt
      payBad  == \E i \in 1..n : LET a == s.auctions[i] IN
                   s.bal[PayAcc(a.id)][a.payDenom]
                     < (IF a.status = "Started" THEN Sum(MapSeq(s.bids[i], LAMBDA b : Reserve(b, a.payDenom))) ELSE 0)
      vestBad == \E i \in 1..n : LET a == s.auctions[i] IN
                   s.bal[VestAcc(a.id)][a.payDenom]
                     < (IF a.status = "Vesting" THEN Sum(MapSeq(s.vqs[i], LAMBDA q : IF q.released THEN 0 ELSE q.amt)) ELSE 0)
  IN (IF sellBad THEN <<"selling-pool-reserve-amount">> ELSE <<>>)
     \o (IF payBad THEN <<"paying-pool-reserve-amount">> ELSE <<>>)
     \o (IF vestBad THEN <<"vesting-pool-reserve-amount">> ELSE <<>>)
=============================================================================
