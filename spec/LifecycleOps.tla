---------------------------- MODULE LifecycleOps ----------------------------
(* The abstract lifecycle step over plain values; shared by Lifecycle.tla (Apalache, unbounded) *)
(* and FRProps.tla (clause C08.refines: every step of the system specification and of the real  *)
(* code, projected on one auction, is a lifecycle step).                                         *)
EXTENDS Integers

LRank(s) == IF s = "StandBy" THEN 0 ELSE IF s = "Started" THEN 1 ELSE IF s = "Vesting" THEN 2 ELSE 3

(* One abstract step from (s, n, e) to (s2, n2, e2) by a block at time t -- written over plain   *)
(* values so that FRProps can apply it to the auctions of the system specification as well.      *)
LBlock(s, n, e, st, batch, sched, rel, mx, per, t, s2, n2, e2) ==
  \/ s = "StandBy" /\ n2 = n /\ e2 = e /\ s2 = (IF st <= t THEN "Started" ELSE "StandBy")
  \/ s = "Started" /\ e > t /\ s2 = s /\ n2 = n /\ e2 = e
  \/ /\ s = "Started" /\ e <= t
     /\ \/ n2 = n /\ e2 = e /\ s2 = (IF sched THEN "Vesting" ELSE "Finished")          \* settle
        \/ batch /\ n < mx + 1 /\ n2 = n + 1 /\ e2 = e + per /\ s2 = "Started"          \* extend
  \/ s = "Vesting" /\ n2 = n /\ e2 = e /\ s2 = (IF rel <= t THEN "Finished" ELSE "Vesting")
  \/ s \in {"Finished", "Cancelled"} /\ s2 = s /\ n2 = n /\ e2 = e

LCancel(s, n, e, s2, n2, e2) == s = "StandBy" /\ s2 = "Cancelled" /\ n2 = n /\ e2 = e

(* any step of the system projected on one auction: a block, a cancel, or nothing *)
LStep(s, n, e, st, batch, sched, rel, mx, per, isBlock, t, s2, n2, e2) ==
  \/ isBlock /\ LBlock(s, n, e, st, batch, sched, rel, mx, per, t, s2, n2, e2)
  \/ ~isBlock /\ (LCancel(s, n, e, s2, n2, e2) \/ (s2 = s /\ n2 = n /\ e2 = e))
=============================================================================
