------------------------------ MODULE Lifecycle ------------------------------
(***************************************************************************)
(* The control skeleton of ONE auction: status, number of end times, last   *)
(* end time, clock.  Integers and strings only, so that Apalache can check  *)
(* an inductive invariant for ALL times, ALL extension periods and every    *)
(* round limit 0..30 (C08: forward-only lifecycle; C13: at most MaxExt+1    *)
(* end times, hence every auction settles).  The system specification is    *)
(* checked by TLC to refine this module step by step (clause C08.refines in *)
(* FRProps.tla uses LStep below on every auction of every transition).      *)
(*                                                                         *)
(*   apalache-mc check --cinit=CInit --init=Init    --inv=IndInv  --length=0 *)
(*   apalache-mc check --cinit=CInit --init=IndInit --inv=IndInv  --length=1 *)
(*   apalache-mc check --cinit=CInit --init=IndInit --inv=Forward --length=1 *)
(*   apalache-mc check --cinit=CInit --init=IndInit --inv=Progress --length=1 *)
(***************************************************************************)
EXTENDS Integers, LifecycleOps

CONSTANTS
  \* @type: Int;
  MaxExt,      \* maximum extended rounds of the auction
  \* @type: Int;
  Period       \* the module parameter: length of an extended round

VARIABLES
  \* @type: Str;
  status,
  \* @type: Int;
  nEnds,
  \* @type: Int;
  lastEnd,
  \* @type: Int;
  start,
  \* @type: Int;
  now,
  \* @type: Bool;
  isBatch,
  \* @type: Bool;
  hasSched,
  \* @type: Int;
  lastRelease,
  \* @type: Int;
  blockT       \* time of the block that produced this state (-1: the step was not a block)

CInit == MaxExt \in 0..30 /\ Period \in Nat

Statuses == {"StandBy", "Started", "Vesting", "Finished", "Cancelled"}

Init ==
  /\ status \in {"StandBy", "Started"} /\ nEnds = 1
  /\ start \in Int /\ lastEnd \in Int /\ start < lastEnd
  /\ now \in Nat /\ (status = "Started" <=> start <= now) /\ now <= lastEnd
  /\ isBatch \in BOOLEAN /\ hasSched \in BOOLEAN
  /\ lastRelease \in Int /\ lastRelease > lastEnd
  /\ blockT = -1

Block ==
  \E t \in Int :
    /\ t >= now /\ now' = t /\ blockT' = t
    /\ LBlock(status, nEnds, lastEnd, start, isBatch, hasSched, lastRelease, MaxExt, Period, t, status', nEnds', lastEnd')
    /\ UNCHANGED <<start, isBatch, hasSched, lastRelease>>

Cancel ==
  /\ LCancel(status, nEnds, lastEnd, status', nEnds', lastEnd')
  /\ blockT' = -1
  /\ UNCHANGED <<start, now, isBatch, hasSched, lastRelease>>

Next == Block \/ Cancel

IndInv ==
  /\ status \in Statuses
  /\ nEnds >= 1 /\ nEnds <= MaxExt + 1
  /\ (~isBatch => nEnds = 1)
  /\ (status \in {"StandBy", "Cancelled"} => nEnds = 1)
  /\ start < lastEnd
  /\ now >= 0 /\ blockT >= -1
IndInit == /\ status \in Statuses /\ start \in Int /\ lastEnd \in Int /\ now \in Int /\ nEnds \in Int /\ isBatch \in BOOLEAN
           /\ hasSched \in BOOLEAN /\ lastRelease \in Int /\ blockT \in Int
           /\ IndInv

(* action invariants (formulas with primes, checked with --length=1 from IndInit) *)
Forward ==
  /\ LRank(status') >= LRank(status)
  /\ (status \in {"Finished", "Cancelled"} => status' = status)
  /\ (status' = "Cancelled" => status \in {"StandBy", "Cancelled"})
  /\ nEnds' >= nEnds /\ lastEnd' >= lastEnd
(* a block at or after the last end time of an open auction settles it or consumes one of the *)
(* at most MaxExt remaining rounds: with nEnds <= MaxExt + 1 every auction settles            *)
Progress ==
  (status = "Started" /\ blockT' >= 0 /\ lastEnd <= blockT') =>
     (status' # "Started" \/ (nEnds' = nEnds + 1 /\ nEnds' <= MaxExt + 1))

(* deliberately false variant for the self-test: extension without the round limit *)
Forward_false == nEnds' = nEnds
=============================================================================
