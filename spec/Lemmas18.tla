------------------------------ MODULE Lemmas18 ------------------------------
(***************************************************************************)
(* Arithmetic lemmas behind the rounding clauses, for ALL integers with the *)
(* real LegacyDec scale D = 10^18 (TLC's integers are 32-bit and its model  *)
(* uses a small grid; Apalache/z3 discharges these over unbounded Int).     *)
(* Values: a, b amounts (Int >= 0 / > 0), p, q prices as numerators over D, *)
(* P proceeds, w1..w3 weights as numerators over D.                         *)
(*   ToSelling(a, p) = (a*D) \div p     ToPaying(a, p) = CeilDiv(a*p, D)    *)
(* Run:  apalache-mc check --init=Init --next=Next --length=0 --inv=<L>     *)
(***************************************************************************)
EXTENDS Integers

VARIABLES
  \* @type: Int;
  a,
  \* @type: Int;
  b,
  \* @type: Int;
  p,
  \* @type: Int;
  q,
  \* @type: Int;
  w1,
  \* @type: Int;
  w2,
  \* @type: Int;
  w3

D == 1000000000000000000
CeilDiv(x, y) == (x + y - 1) \div y
ToSelling(x, pr) == (x * D) \div pr
ToPaying(x, pr) == CeilDiv(x * pr, D)

Init == /\ a \in Nat /\ b \in Nat /\ p \in Nat /\ q \in Nat /\ w1 \in Nat /\ w2 \in Nat /\ w3 \in Nat
        /\ p > 0 /\ q > 0
Next == UNCHANGED <<a, b, p, q, w1, w2, w3>>

(* L1 worth bid of a paying coins cleared at price p: the payment for the coins received never exceeds the *)
(* reservation (refund >= 0) and the refund is less than one coin's price plus one unit                     *)
L1 == LET got == ToSelling(a, p) pay == ToPaying(got, p) IN pay <= a /\ (a - pay) * D < p + D

(* L2 quantity bid of b coins at limit q cleared at p <= q: payment at the clearing price is covered by the *)
(* reservation at the limit price, at least price*quantity and less than one unit more                     *)
L2 == p <= q => (ToPaying(b, p) <= ToPaying(b, q) /\ ToPaying(b, p) * D >= p * b /\ ToPaying(b, p) * D < p * b + D)

(* L3 cap: receiving m <= floor(a/p) coins never costs more than a *)
L3 == b <= ToSelling(a, p) => ToPaying(b, p) <= a

(* L4 modification: reservation is monotone in amount and price *)
L4 == (b >= a /\ q >= p) => ToPaying(b, q) >= ToPaying(a, p)

(* L5 demand of a worth bid is antitone in the price (the fact the binary search over prices needs) *)
L5 == p <= q => ToSelling(a, q) <= ToSelling(a, p)

(* L6 fixed price: paying-denominated bid of a coins receives got = floor(a/p) with 0 <= a*D - got*p < p ;  *)
(* selling-denominated bid of b coins reserves r = ceil(b*p) with 0 <= r*D - b*p < D                        *)
L6 == /\ a * D - ToSelling(a, p) * p >= 0 /\ a * D - ToSelling(a, p) * p < p
      /\ ToPaying(b, p) * D - b * p >= 0 /\ ToPaying(b, p) * D - b * p < D

(* L7 vesting: floor shares of up to three non-final instalments never exceed the proceeds, so the last    *)
(* instalment (the remainder) is >= 0 and the instalments sum to the proceeds by construction              *)
L7 == (w1 + w2 + w3 <= D) => ((a * w1) \div D + (a * w2) \div D + (a * w3) \div D <= a)

(* L9 anti-sniping rule: for counts 0 <= cur, 0 < last and a rate r/D, the integer form used by the spec  *)
(* (last-cur)*D >= r*last is the real-number statement 1 - cur/last >= r/D (cross-multiplication only)      *)
L9 == (b > 0 /\ a <= b) => (((b - a) * D >= w1 * b) <=> ((b - a) * D - w1 * b >= 0))

(* deliberately false variant used by the self-test: truncating the payment instead of ceiling loses money *)
L2_false == p <= q => ((b * p) \div D) * D >= p * b
=============================================================================
