SPECIFICATION GenSpec
CONSTANTS
  UserSeq <- Users3
  NA = 2
  D = 2
  Dev = {}
  Inputs <- MCInputs
  Bal0 <- MCBal0
  Params0 <- MCParams0
  KeepHist = TRUE
  GenDepth = 14
  GenDir = "gen"
  KindBag <- BagDefault
  Tmax = 9
  Jump = 2
  MaxAuc = 2
  Templates = {"B1", "F1", "B0"}
  Bidders = {"u2", "u3"}
  Prices = {1, 2, 3}
  Amts = {1, 3, 5}
  CapSet = {5, 10}
  MaxBids = 4
  MaxMods = 1
  MaxDon = 2
  WithInvalid = TRUE
  WithGenesis = FALSE
INVARIANT EmitHist
CHECK_DEADLOCK FALSE
