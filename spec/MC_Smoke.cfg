SPECIFICATION Spec
CONSTANTS
  UserSeq <- Users3
  NA = 2
  D = 2
  Dev = {}
  Inputs <- MCInputs
  Bal0 <- MCBal0
  Params0 <- MCParams0
  KeepHist = FALSE
  GenDepth = 0
  GenDir = "."
  KindBag <- BagDefault
  Tmax = 7
  Jump = 2
  MaxAuc = 1
  Templates = {"B1"}
  Bidders = {"u2", "u3"}
  Prices = {1, 2}
  Amts = {1, 3}
  CapSet = {5}
  MaxBids = 2
  MaxMods = 1
  MaxDon = 0
  WithInvalid = FALSE
  WithGenesis = FALSE
VIEW View
INVARIANT NoNegative
PROPERTY AllClauses
CHECK_DEADLOCK FALSE
