------------------------------- MODULE Monitor -------------------------------
(***************************************************************************)
(* Trace validation.  Reads an NDJSON trace recorded from the REAL keeper   *)
(* (harness/cmd/fr-replay; one line per step with the full projected state, *)
(* the ordered bank transfers, listener calls and a few extra observations) *)
(* and, for every step,                                                     *)
(*   (i)  evaluates the property clauses of FRProps on the observed         *)
(*        pre/post states                          -> lines <<"FAIL", ...>>  *)
(*   (ii) compares the observed step with the specification's Do operator   *)
(*        applied to the observed pre-state        -> lines <<"DRIFT", ...>> *)
(* It never stops at the first finding.  A verdict is derived from (i)      *)
(* only; (ii) is the conformance check that binds the design-level model    *)
(* checking results to the code.                                            *)
(* The trace file name comes from the environment variable FR_TRACE; the    *)
(* constants UserSeq, NA and D are taken from the trace's first Init line.  *)
(***************************************************************************)
EXTENDS FRProps, Json, IOUtils

CONSTANT Check      \* the clause identifiers to evaluate

Tr == ndJsonDeserialize(IOEnv.FR_TRACE)
MonUsers == Tr[1].act.users
MonNA    == Tr[1].act.na
MonD     == Tr[1].act.grid

VARIABLES l, ghost
mvars == <<l, ghost>>

StepAt(k) == [pre |-> Tr[k - 1].st, act |-> Tr[k].act, res |-> Tr[k].res, post |-> Tr[k].st,
              xfers |-> Tr[k].xfers, hooks |-> Tr[k].hooks, extra |-> Tr[k].extra]

StateFields == {"now", "params", "aseq", "auctions", "allowed", "bids", "bseq", "vqs", "lastMatched",
                "bal", "fp", "supply", "switchOn"}

DriftOf(exp, step) ==
  {f \in StateFields : exp.st[f] # step.post[f]}
  \cup (IF exp.ok # step.res.ok THEN {"res.ok"} ELSE {})
  \cup (IF exp.ok /\ step.res.ok /\ exp.xfers # step.xfers THEN {"xfers"} ELSE {})

InitDrift(rec) ==
  LET s0 == InitState(rec.act.bal0, rec.act.params, FALSE) IN
  {f \in StateFields : s0[f] # rec.st[f]}

Report(kind, rec, what) == PrintT(<<kind, rec.trace, rec.i, what>>)

MInit == l = 0 /\ ghost = Ghost0

MNext ==
  /\ l < Len(Tr)
  /\ l' = l + 1
  /\ LET rec == Tr[l + 1] IN
     IF rec.act.a = "Init"
     THEN /\ ghost' = Ghost0
          /\ LET d == InitDrift(rec) IN
             /\ (d # {} => Report("DRIFT", rec, d))
             /\ (("C10.switch" \in Check /\ rec.st.switchOn) => Report("FAIL", rec, {"C10.switch"}))
     ELSE LET step == StepAt(l + 1)
              g2   == GhostNext(ghost, step)
              f    == Fails(step, ghost, g2, Check)
              d    == DriftOf(Do(step.pre, step.act), step)
          IN /\ ghost' = g2
             /\ (f # {} => Report("FAIL", rec, f))
             /\ (d # {} => Report("DRIFT", rec, d))
  /\ (l + 1 = Len(Tr) => PrintT(<<"DONE", Len(Tr)>>))

MSpec == MInit /\ [][MNext]_mvars
=============================================================================
