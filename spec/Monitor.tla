------------------------------- MODULE Monitor -------------------------------
(***************************************************************************)
(* Trace validation.  Reads an NDJSON trace recorded from the REAL keeper   *)
(* (harness/cmd/fr-replay; one line per step with the full projected state, *)
(* the ordered bank transfers, listener calls and a few extra observations) *)
(* and, for every step,                                                     *)
(*   (i)  evaluates the property clauses of FRProps on the observed         *)
(*        pre/post states                          -> lines <<"FAIL", ...>>  *)
(*   (ii) compares the observed step with the specification's Do operator   *)
(*        applied to the observed pre-state        -> lines <<"DRIFT", ...>> *)
(* It never stops at the first finding.  A verdict is derived from (i)      *)
(* only; (ii) is the conformance check that binds the design-level model    *)
(* checking results to the code.                                            *)
(* The trace file name comes from the environment variable FR_TRACE; the    *)
(* constants UserSeq, NA and D are taken from the trace's first Init line.  *)
(***************************************************************************)
EXTENDS FRProps, Json, IOUtils

CONSTANT Check      \* the clause identifiers to evaluate
MonCheck == IF IOEnv.FR_CHECK = "ALL" THEN ClauseIds \cup {"C14.replicas"}
            ELSE IF IOEnv.FR_CHECK = "C14" THEN {"C14.replicas"}
            ELSE ByProp[IOEnv.FR_CHECK]

Tr == ndJsonDeserialize(IOEnv.FR_TRACE)
MonUsers == Tr[1].act.users
MonNA    == Tr[1].act.na
MonD     == Tr[1].act.grid

VARIABLES l, ghost
mvars == <<l, ghost>>

StepAt(k) == [pre |-> Tr[k - 1].st, act |-> Tr[k].act, res |-> Tr[k].res, post |-> Tr[k].st,
              xfers |-> Tr[k].xfers, hooks |-> Tr[k].hooks, extra |-> Tr[k].extra, evm |-> Tr[k].evm]

StateFields == {"now", "params", "aseq", "auctions", "allowed", "bids", "bseq", "vqs", "lastMatched",
                "bal", "fp", "supply", "switchOn", "nl"}

DriftOf(exp, step) ==
  {f \in StateFields : exp.st[f] # step.post[f]}
  \cup (IF exp.ok # step.res.ok THEN {"res.ok"} ELSE {})
  \cup (IF exp.ok /\ step.res.ok /\ exp.xfers # step.xfers THEN {"xfers"} ELSE {})
  \cup (IF ((exp.ok /\ step.res.ok) \/ exp.err = "hook") /\ exp.hooks # step.hooks THEN {"hooks"} ELSE {})
  \cup (IF exp.ok /\ step.res.ok /\ EventsOf(step.pre, step.act, exp) # step.evm THEN {"events"} ELSE {})
  \cup (IF step.extra.modinv # ModuleInvariantsBroken(step.post) THEN {"modinv"} ELSE {})

InitDrift(rec) ==
  LET s0 == [InitState(rec.act.bal0, rec.act.params, FALSE) EXCEPT !.nl = IF "listeners" \in DOMAIN rec.act THEN rec.act.listeners ELSE 0] IN
  {f \in StateFields : s0[f] # rec.st[f]}

(* C14 (2-safety, by self-composition): the harness executes every behaviour several times *)
(* and logs the replicas back to back; step k of a replica must equal step k of the previous *)
(* replica in everything observed: result, complete module state and balances, ordered bank *)
(* transfers, module events, and the digests of the full ordered event stream and of the    *)
(* module's raw store with the account numbers created so far.                              *)
SameObs(a, b) ==
  /\ a.act = b.act /\ a.res = b.res /\ a.st = b.st /\ a.xfers = b.xfers
  /\ a.hooks = b.hooks /\ a.extra = b.extra /\ a.ev = b.ev

Report(kind, rec, what) == PrintT(<<kind, rec.trace, rec.i, what>>)

MInit == l = 0 /\ ghost = Ghost0

MNext ==
  /\ l < Len(Tr)
  /\ l' = l + 1
  /\ LET rec == Tr[l + 1] IN
     IF rec.act.a = "Init"
     THEN /\ ghost' = Ghost0
          /\ LET d == InitDrift(rec) IN
             /\ (d # {} => Report("DRIFT", rec, d))
             /\ (("C10.switch" \in Check /\ rec.st.switchOn) => Report("FAIL", rec, {"C10.switch"}))
     ELSE IF ~rec.judge
     THEN ghost' = GhostNext(ghost, StepAt(l + 1))      \* prefix step (judged as the last step of another behaviour)
     ELSE LET step == StepAt(l + 1)
              g2   == GhostNext(ghost, step)
              f    == Fails(step, ghost, g2, Check)
              exp  == Do(step.pre, step.act)
              d    == DriftOf(exp, step)
          IN /\ ghost' = g2
             /\ (f # {} => Report("FAIL", rec, f))
             /\ (d # {} => Report("DRIFT", rec, d))
             /\ (("C16.query" \in f /\ "FR_DEBUG" \in DOMAIN IOEnv) =>
                   PrintT(<<"EXPECTED-QUERY", rec.trace, rec.i, QueryAnswer(step.pre, step.act), PageInfo(step.pre, step.act)>>))
             /\ ((d # {} /\ "FR_DEBUG" \in DOMAIN IOEnv) =>
                   PrintT(<<"EXPECTED", rec.trace, rec.i, [fld \in d \cap StateFields |-> exp.st[fld]], exp.ok, exp.err, exp.xfers>>))
  /\ LET rec == Tr[l + 1] IN
       ("C14.replicas" \in Check /\ rec.rep > 1 /\ ~SameObs(rec, Tr[l + 1 - rec.len]))
          => Report("FAIL", rec, {"C14.replicas"})
  /\ (l + 1 = Len(Tr) => PrintT(<<"DONE", Len(Tr)>>))

MSpec == MInit /\ [][MNext]_mvars
=============================================================================
