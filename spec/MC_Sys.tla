------------------------------- MODULE MC_Sys --------------------------------
(***************************************************************************)
(* Bounded system instance: every interleaving of creation, allow-list      *)
(* changes, bids, modifications, cancellation, donations, genesis round     *)
(* trips and block times over the small domains below.  The .cfg files      *)
(* (MC_Fixed, MC_Batch, MC_Multi, MC_Lifecycle) choose the constants.       *)
(***************************************************************************)
EXTENDS FRShell

CONSTANTS
  Tmax,        \* last block time
  Jump,        \* a block advances time by 1..Jump ticks
  MaxAuc,      \* number of auctions that may be created
  CreateUntil, \* creation is offered while now <= CreateUntil
  Dur,         \* an auction's first end time is start + Dur (Dur - 1 for the short templates)
  StartOffsets,\* start time of a new auction = now + one of these (0: created already open)
  Templates,   \* subset of template names offered to creation
  Bidders,     \* users that place bids
  Prices,      \* bid prices offered (numerators over D)
  Amts,        \* bid amounts offered
  CapSet,      \* allow-list caps offered
  MaxBids,     \* bids per auction
  MaxMods,     \* 0: no modifications offered; otherwise every growth of a bid within Prices x Amts is offered
  MaxDon,      \* donations per behaviour
  WithInvalid, \* also offer malformed / unauthorised variants of every message
  WithGenesis, \* also offer genesis round trips
  WithParams,  \* also offer MsgUpdateParams (authority, validity, fee settings incl. empty fees, extension period 0..2)
  WithQueries, \* C16: also offer queries (answers are compared with the state the request describes)
  Faults,      \* C07: a block is offered with fault = f for every f here (0 = no injected bank failure)
  HookVariants,\* C17: also offer every input with one failing listener
  BidKinds     \* bid types offered on batch auctions (subset of {"W", "M"})

Half == D \div 2
(* creation templates; all times are relative to the block time `now' at which the message is sent *)
Sched2(e) == <<[t |-> e + 2, w |-> Half], [t |-> e + 3, w |-> D - Half]>>
Sched3(e) == <<[t |-> e + 1, w |-> D \div 4], [t |-> e + 2, w |-> D \div 4], [t |-> e + 4, w |-> D - 2 * (D \div 4)]>>

Fixed(by, price, amt, start, end, sched) ==
  [a |-> "CreateFixed", by |-> by, price |-> price, sellDenom |-> "dA", sellAmt |-> amt, payDenom |-> "dB",
   start |-> start, end |-> end, sched |-> sched]
Batch(by, price, minPrice, amt, start, end, sched, maxExt, rate) ==
  [a |-> "CreateBatch", by |-> by, price |-> price, minPrice |-> minPrice, sellDenom |-> "dA", sellAmt |-> amt,
   payDenom |-> "dB", start |-> start, end |-> end, sched |-> sched, maxExt |-> maxExt, rate |-> rate]

A1 == UserSeq[1]
Template(n, now, ds) ==
  LET ts == now + ds
      e2 == ts + Dur
      e1 == ts + Dur - 1
  IN
  CASE n = "F0"  -> Fixed(A1, D, 10, ts, e2, <<>>)
    [] n = "F1"  -> Fixed(A1, 3 * Half, 10, ts, e2, Sched2(e2))     \* price 1.5: rounding on both denominations
    [] n = "F2"  -> Fixed(A1, D + 1, 7, ts, e1, <<[t |-> e1 + 1, w |-> D]>>)
    [] n = "F3"  -> Fixed(A1, Half, 9, ts, e2, <<>>)                 \* price 0.5: a selling-denominated bid of an odd amount is worth a fractional number of paying coins
    [] n = "Fl"  -> Fixed(A1, D, 10, ts, e2, Sched3(e2))
    [] n = "FB"  -> [Fixed(UserSeq[2], D, 6, ts, e2, <<>>) EXCEPT !.sellDenom = "dB", !.payDenom = "dA"]
    [] n = "B0"  -> Batch(A1, D, Half, 10, ts, e2, <<>>, 0, Half)
    [] n = "B1"  -> Batch(A1, D, Half, 10, ts, e2, Sched2(e2 + 1), 1, Half)
    [] n = "B2"  -> Batch(A1, D, Half, 7, ts, e1, <<>>, 2, D)
    [] n = "B3"  -> Batch(A1, D, 1, 5, ts, e1, Sched3(e1 + 3), 3, 1)
    [] n = "B4"  -> Batch(A1, D, Half, 9, ts, e2, <<[t |-> e2 + 2, w |-> D]>>, 1, Half)
    [] n = "B5"  -> Batch(A1, D, Half, 4, ts, e1, <<>>, 3, Half)
    [] n = "F4"  -> Fixed(A1, 3 * Half, 2, ts, e2, <<>>)               \* price 1.5, two coins: sold out by one bid; a paying bid of 1 is worth no coin
    [] n = "B6"  -> Batch(A1, D, Half, 4, ts, e1, <<>>, 3, 2 * D)        \* rate 2.0: once something had matched the auction never extends again
    [] n = "F100" -> Fixed(A1, D, 30, ts, e2, [k \in 1..100 |-> [t |-> e2 + k, w |-> D \div 100]])
    [] n = "B100" -> Batch(A1, D, 1, 30, ts, e2, [k \in 1..100 |-> [t |-> e2 + 2 * k, w |-> D \div 100]], 2, Half)
    [] n = "B30"  -> Batch(A1, D, 1, 20, ts, e1, <<>>, 30, 1)
    [] n = "Bx"  -> Batch(A1, D, 1, 6, ts, e1, <<[t |-> e1 + 1, w |-> Half], [t |-> e1 + 2, w |-> D - Half]>>, 2, 1)
    [] n = "Bl"  -> Batch(A1, D, Half, 10, ts, e1, Sched3(e1 + 1), 1, 1)
    [] n = "BB"  -> [Batch(UserSeq[2], D, Half, 8, ts, e2, <<>>, 1, Half) EXCEPT !.sellDenom = "dB", !.payDenom = "dA"]

T0(n) == Template(n, 1, 1)
BadCreates(now) ==
  LET F == Template("F0", now, 1)
      B == Template("B0", now, 1)
  IN
  { [F EXCEPT !.by = "bad"], [F EXCEPT !.price = 0],
    [F EXCEPT !.sellAmt = 0], [F EXCEPT !.payDenom = "dA"],
    [F EXCEPT !.payDenom = "bad"], [F EXCEPT !.end = F.start], [F EXCEPT !.end = now - 1, !.start = now - 2],
    [F EXCEPT !.sched = <<[t |-> F.end, w |-> D]>>],
    [F EXCEPT !.sched = <<[t |-> F.end + 1, w |-> Half]>>],
    [F EXCEPT !.sched = <<[t |-> F.end + 2, w |-> Half], [t |-> F.end + 1, w |-> D - Half]>>],
    [F EXCEPT !.sched = <<[t |-> F.end + 1, w |-> 0], [t |-> F.end + 2, w |-> D]>>],
    [F EXCEPT !.sched = <<[t |-> F.end + 1, w |-> Half], [t |-> F.end + 1, w |-> D - Half]>>],    \* two instalments at the same release time
    [B EXCEPT !.sched = <<[t |-> B.end + 2, w |-> Half], [t |-> B.end + 2, w |-> D - Half]>>],
    [F EXCEPT !.sellAmt = 1000000],

    [B EXCEPT !.minPrice = 0], [B EXCEPT !.rate = 0],
    [B EXCEPT !.maxExt = 31], [B EXCEPT !.sellDenom = "bad"] }

(* accepted, but unusual: created in the very block of its end time -- open at once, closed by the next block.   *)
(* Offered in the replayed instances only (KeepHist): in the exhaustive design runs they multiply the states *)
(* (6.6 M instead of 0.7 M in MC_InvalidF_q) without showing the design anything new.                      *)
LastMinuteCreates(now) ==
  { [Template("F0", now, 1) EXCEPT !.start = now - 1, !.end = now], [Template("B0", now, 1) EXCEPT !.start = now - 1, !.end = now] }

Ids(s) == 0..(Len(s.auctions) - 1)

BidDenoms(s, id, ty) ==
  LET a == Auc(s, id) IN
  CASE ty = "F" -> {a.payDenom, a.sellDenom}
    [] ty = "W" -> {a.payDenom}
    [] ty = "M" -> {a.sellDenom}

BidTypes(s, id) == IF Auc(s, id).type = "F" THEN {"F"} ELSE BidKinds

GoodBids(s) ==
  UNION { IF Len(s.bids[id + 1]) < MaxBids /\ Auc(s, id).status = "Started"
          THEN { [a |-> "Bid", by |-> u, id |-> id, type |-> ty, price |-> p, denom |-> dn, amt |-> n] :
                   u \in Bidders, ty \in BidTypes(s, id), p \in (IF Auc(s, id).type = "F" THEN {Auc(s, id).startPrice} ELSE Prices),
                   dn \in Denoms, n \in Amts }
          ELSE {} : id \in Ids(s) }

ValidDenomBids(s) == {m \in GoodBids(s) : m.denom \in BidDenoms(s, m.id, m.type) /\ s.allowed[m.id + 1][m.by] > 0}

OddBids(s) ==
  UNION { { [a |-> "Bid", by |-> UserSeq[2], id |-> id, type |-> "F", price |-> D, denom |-> "dB", amt |-> 1],
            [a |-> "Bid", by |-> UserSeq[2], id |-> id, type |-> "W", price |-> D, denom |-> "dB", amt |-> 1],
            [a |-> "Bid", by |-> UserSeq[2], id |-> id, type |-> "M", price |-> D, denom |-> "dA", amt |-> 1],
            [a |-> "Bid", by |-> UserSeq[2], id |-> id, type |-> "M", price |-> D, denom |-> "dB", amt |-> 1],
            [a |-> "Bid", by |-> UserSeq[2], id |-> id, type |-> "F", price |-> Half, denom |-> "dB", amt |-> 1],
            [a |-> "Bid", by |-> UserSeq[2], id |-> id, type |-> "X", price |-> D, denom |-> "dB", amt |-> 1],
            [a |-> "Bid", by |-> "bad", id |-> id, type |-> "F", price |-> D, denom |-> "dB", amt |-> 1],
            [a |-> "Bid", by |-> UserSeq[2], id |-> id, type |-> "W", price |-> 0, denom |-> "dB", amt |-> 1],
            [a |-> "Bid", by |-> UserSeq[2], id |-> id, type |-> "W", price |-> D, denom |-> "dB", amt |-> 0],
            [a |-> "Bid", by |-> UserSeq[2], id |-> id, type |-> "W", price |-> 1, denom |-> "dB", amt |-> 1],
            [a |-> "Bid", by |-> UserSeq[2], id |-> id, type |-> "M", price |-> D, denom |-> "dA", amt |-> 100000] }
          \cup (IF id \in Ids(s) /\ Auc(s, id).type = "F"
                THEN { [a |-> "Bid", by |-> u, id |-> id, type |-> "F", price |-> Auc(s, id).startPrice + k, denom |-> dn, amt |-> n] :
                         u \in Bidders, k \in {1, D}, dn \in {Auc(s, id).payDenom, Auc(s, id).sellDenom}, n \in {1, 3} }
                ELSE {})
          : id \in {i \in Ids(s) : Len(s.bids[i + 1]) < MaxBids} \cup {Len(s.auctions)} }

Mods(s) ==
  UNION { IF Auc(s, id).status = "Started" /\ Auc(s, id).type = "B"
          THEN UNION { { [a |-> "Modify", by |-> s.bids[id + 1][k].bidder, id |-> id, bid |-> k, price |-> p,
                          denom |-> s.bids[id + 1][k].denom, amt |-> n] :
                           p \in {q \in Prices : q >= s.bids[id + 1][k].price},
                           n \in {q \in Amts : q >= s.bids[id + 1][k].amt} }
                       : k \in 1..Len(s.bids[id + 1]) }
          ELSE {} : id \in Ids(s) }

OtherDenom(dn) == IF dn = "dA" THEN "dB" ELSE "dA"
OddMods(s) ==
  UNION { IF Auc(s, id).status = "Started" /\ Auc(s, id).type = "B"
          THEN UNION { { [a |-> "Modify", by |-> s.bids[id + 1][k].bidder, id |-> id, bid |-> k, price |-> p,
                          denom |-> OtherDenom(s.bids[id + 1][k].denom), amt |-> n] :
                           p \in {q \in Prices : q >= s.bids[id + 1][k].price},
                           n \in {q \in Amts : q >= s.bids[id + 1][k].amt} }
                       : k \in 1..Len(s.bids[id + 1]) }
          ELSE {} : id \in Ids(s) }
  \cup
  UNION { { [a |-> "Modify", by |-> u, id |-> id, bid |-> k, price |-> p, denom |-> dn, amt |-> n] :
              u \in {UserSeq[2], UserSeq[Len(UserSeq)]}, k \in {1, 2}, p \in {Half, D, 2 * D},
              dn \in {"dA", "dB"}, n \in {0, 1, 3} }
          : id \in Ids(s) }

BidderSeq == SelectSeq(UserSeq, LAMBDA u : u \in Bidders)
Allow(s) ==
  UNION { { [a |-> "AddAllowed", id |-> id, entries |-> <<[u |-> u, cap |-> c]>>] : u \in Bidders, c \in CapSet }
          \cup { [a |-> "AddAllowed", id |-> id, entries |-> [k \in 1..Len(BidderSeq) |-> [u |-> BidderSeq[k], cap |-> c]]] : c \in CapSet }
          \cup { [a |-> "UpdateAllowed", id |-> id, u |-> u, cap |-> c] : u \in Bidders, c \in CapSet }
          : id \in {i \in Ids(s) : ~Terminal(Auc(s, i).status)} }

OddAllow(s) ==
  UNION { { [a |-> "AddAllowed", id |-> id, entries |-> <<>>],
            [a |-> "AddAllowed", id |-> id, entries |-> <<[u |-> UserSeq[2], cap |-> 0]>>],
            [a |-> "AddAllowed", id |-> id, entries |-> <<[u |-> UserSeq[2], cap |-> 100000]>>],
            [a |-> "AddAllowed", id |-> id, entries |-> <<[u |-> UserSeq[2], cap |-> 1], [u |-> "bad", cap |-> 1]>>],
            [a |-> "AddAllowed", id |-> id, entries |-> <<[u |-> UserSeq[2], cap |-> 2], [u |-> UserSeq[3], cap |-> 3]>>],
            [a |-> "UpdateAllowed", id |-> id, u |-> UserSeq[2], cap |-> 0],
            [a |-> "UpdateAllowed", id |-> id, u |-> UserSeq[3], cap |-> 100000],
            [a |-> "MsgAddAllowed", by |-> UserSeq[2], id |-> id, cap |-> 5],
            [a |-> "MsgAddAllowed", by |-> "bad", id |-> id, cap |-> 5] }
          : id \in Ids(s) \cup {Len(s.auctions)} }

Cancels(s) ==
  { [a |-> "Cancel", by |-> u, id |-> id] :
      u \in (IF WithInvalid THEN {UserSeq[1], UserSeq[2], "bad"} ELSE {UserSeq[1]}),
      id \in (IF WithInvalid THEN Ids(s) \cup {Len(s.auctions)} ELSE {i \in Ids(s) : Auc(s, i).status = "StandBy"}) }

Donations(s, g) ==
  IF SumOver(EscAccts, LAMBDA e : g.don[e]["dA"] + g.don[e]["dB"] + g.don[e]["dF"])
       + SumOver({i \in 1..NA : TRUE}, LAMBDA i : g.sweptSell[i] + g.sweptPay[i]) >= MaxDon
  THEN {}
  ELSE { [a |-> "Donate", by |-> UserSeq[Len(UserSeq)], to |-> e, d |-> d, n |-> 1] :
           e \in {EscName(k, i) : k \in {"sell", "pay", "vest"}, i \in 0..(MaxAuc - 1)}, d \in {"dA", "dB"} }

Blocks(s) ==
  IF s.now >= Tmax \/ (Len(s.auctions) = 0 /\ s.now >= 1) THEN {}
  ELSE { [a |-> "Block", t |-> t, fault |-> f] : t \in (s.now + 1)..Min(s.now + Jump, Tmax), f \in Faults }

Creates(s) ==
  IF Len(s.auctions) >= MaxAuc \/ s.now > CreateUntil THEN {}
  ELSE { Template(n, s.now, ds) : n \in Templates, ds \in StartOffsets }

GoodCancels(s) == { [a |-> "Cancel", by |-> Auc(s, i).auctioneer, id |-> i] : i \in {j \in Ids(s) : Auc(s, j).status = "StandBy"} }
OddCancels(s) == { [a |-> "Cancel", by |-> u, id |-> id] : u \in {UserSeq[1], UserSeq[2], "bad"}, id \in Ids(s) \cup {Len(s.auctions)} } \ GoodCancels(s)

HooksOf(a) ==
  CASE a = "CreateFixed" -> {"BeforeFixedPriceAuctionCreated", "AfterFixedPriceAuctionCreated"}
    [] a = "CreateBatch" -> {"BeforeBatchAuctionCreated", "AfterBatchAuctionCreated"}
    [] a = "Cancel" -> {"BeforeAuctionCanceled"}
    [] a = "Bid" -> {"BeforeBidPlaced"}
    [] a = "Modify" -> {"BeforeBidModified"}
    [] a = "AddAllowed" -> {"BeforeAllowedBiddersAdded"}
    [] a = "UpdateAllowed" -> {"BeforeAllowedBidderUpdated"}
    [] a = "Block" -> {"BeforeSellingCoinsAllocated"}
    [] OTHER -> {}

(* C17: every input also in the variants "listener p fails at hook h" *)
HookVariantsOf(S) ==
  IF ~HookVariants THEN S
  ELSE S \cup UNION { { m @@ [hookFail |-> h, hookPos |-> p] : h \in HooksOf(m.a), p \in 1..NL } : m \in S }

UpdParams ==
  { [a |-> "UpdateParams", auth |-> x, valid |-> v, createFee |-> cf, bidFee |-> bf, extPeriod |-> p] :
      x \in {"gov", UserSeq[1], "bad"}, v \in BOOLEAN,
      cf \in {[d |-> "dF", n |-> 2], [d |-> "dF", n |-> 0], [d |-> "dA", n |-> 1]},
      bf \in {[d |-> "dB", n |-> 1], [d |-> "dB", n |-> 0]}, p \in {0, 1, 2} }

Queries(s) ==
  LET ids == 0..Len(s.auctions) IN      \* includes one id that does not exist
  { [a |-> "Query", q |-> "GetAuction", id |-> i] : i \in ids }
  \cup { [a |-> "Query", q |-> "ListAuction", status |-> x, type |-> y] :
            x \in {"", "StandBy", "Started", "Vesting", "Finished", "Cancelled"}, y \in {"", "F", "B"} }
  \cup { [a |-> "Query", q |-> "GetBid", id |-> i, bid |-> k] : i \in ids, k \in 1..3 }
  \cup { [a |-> "Query", q |-> "ListBid", id |-> i, bidder |-> u, matched |-> x] :
            i \in ids, u \in {""} \cup Bidders, x \in {"", "true", "false"} }
  \cup { [a |-> "Query", q |-> "ListVestingQueue", id |-> i] : i \in ids }
  \cup { [a |-> "Query", q |-> "ListAllowedBidder", id |-> i] : i \in ids }
  \cup { [a |-> "Query", q |-> "GetAllowedBidder", id |-> i, u |-> u] : i \in ids, u \in Bidders }
  \cup { [a |-> "Query", q |-> "Params"] }
  \cup { [a |-> "Query", q |-> "ListBid", id |-> i, bidder |-> "", matched |-> "", limit |-> lim, offset |-> off, total |-> tot] :
            i \in {0, 1}, lim \in {0, 1, 2}, off \in {0, 1, 3}, tot \in BOOLEAN }
  \cup { [a |-> "Query", q |-> "ListAuction", status |-> "", type |-> y, limit |-> lim, offset |-> off, total |-> tot] :
            y \in {"", "B"}, lim \in {1, 2}, off \in {0, 1}, tot \in BOOLEAN }
  \cup { [a |-> "Query", q |-> "ListVestingQueue", id |-> i, limit |-> lim, offset |-> off, total |-> tot] :
            i \in {0, 1}, lim \in {1, 2}, off \in {0, 1}, tot \in BOOLEAN }
  \cup { [a |-> "Query", q |-> "ListAllowedBidder", id |-> i, limit |-> lim, offset |-> 0, total |-> tot] :
            i \in {0, 1}, lim \in {1, 2}, tot \in BOOLEAN }

MCInputs0(kind, s, g) ==
  CASE kind = "CreateFixed" -> {m \in Creates(s) : m.a = "CreateFixed"}
    [] kind = "CreateBatch" -> {m \in Creates(s) : m.a = "CreateBatch"}
    [] kind = "Block" -> Blocks(s)
    [] kind = "Bid" -> ValidDenomBids(s)
    [] kind = "Modify" -> IF MaxMods = 0 THEN {} ELSE Mods(s)
    [] kind = "AddAllowed" -> {m \in Allow(s) : m.a = "AddAllowed"}
    [] kind = "UpdateAllowed" -> {m \in Allow(s) : m.a = "UpdateAllowed"}
    [] kind = "MsgAddAllowed" -> IF WithInvalid THEN {m \in OddAllow(s) : m.a = "MsgAddAllowed"} ELSE {}
    [] kind = "Cancel" -> GoodCancels(s)
    [] kind = "Donate" -> IF MaxDon > 0 THEN Donations(s, g) ELSE {}
    [] kind = "Genesis" -> IF WithGenesis THEN {[a |-> "Genesis"]} ELSE {}
    [] kind = "UpdateParams" -> IF WithParams THEN UpdParams ELSE {}
    [] kind = "Query" -> IF WithQueries THEN Queries(s) ELSE {}
    [] kind = "OddCreate" -> IF WithInvalid /\ Len(s.auctions) < MaxAuc
                             THEN BadCreates(s.now) \cup (IF KeepHist /\ s.now <= CreateUntil THEN LastMinuteCreates(s.now) ELSE {}) ELSE {}
    [] kind = "OddBid" -> IF WithInvalid THEN OddBids(s) \cup (GoodBids(s) \ ValidDenomBids(s)) ELSE {}
    [] kind = "OddModify" -> IF WithInvalid THEN OddMods(s) ELSE {}
    [] kind = "OddAllow" -> IF WithInvalid THEN {m \in OddAllow(s) : m.a # "MsgAddAllowed"} ELSE {}
    [] kind = "OddCancel" -> IF WithInvalid THEN OddCancels(s) ELSE {}

MCInputs(kind, s, g) == HookVariantsOf(MCInputs0(kind, s, g))

W(kind, n) == {<<kind, i>> : i \in 1..n}
BagDefault == W("CreateFixed", 2) \cup W("CreateBatch", 3) \cup W("Cancel", 1) \cup W("AddAllowed", 4)
              \cup W("UpdateAllowed", 1) \cup W("MsgAddAllowed", 1) \cup W("Bid", 10) \cup W("Modify", 4)
              \cup W("Block", 9) \cup W("Donate", 1) \cup W("Genesis", 1)
              \cup W("OddCreate", 1) \cup W("OddBid", 2) \cup W("OddModify", 1) \cup W("OddAllow", 1) \cup W("OddCancel", 1)
              \cup W("UpdateParams", 1)
Users2 == <<"u1", "u2">>
Users3 == <<"u1", "u2", "u3">>
Users4 == <<"u1", "u2", "u3", "u4">>
Users6 == <<"u1", "u2", "u3", "u4", "u5", "u6">>
BagQueries == BagDefault \cup W("Query", 10)
BagGenesis == BagDefault \cup W("Genesis", 4)
BagBids == W("CreateFixed", 2) \cup W("CreateBatch", 3) \cup W("AddAllowed", 4) \cup W("UpdateAllowed", 1)
           \cup W("Bid", 16) \cup W("Modify", 3) \cup W("Block", 6) \cup W("Donate", 1)
Rich == [dA |-> 40, dB |-> 40, dF |-> 10]
MCBal0 == [u \in Users |-> Rich]
MCParams0 == [createFee |-> [d |-> "dF", n |-> 2], bidFee |-> [d |-> "dB", n |-> 1], extPeriod |-> 1]
ParamsNoFee == [createFee |-> [d |-> "dF", n |-> 0], bidFee |-> [d |-> "dF", n |-> 0], extPeriod |-> 0]
ParamsPayFee == [createFee |-> [d |-> "dA", n |-> 3], bidFee |-> [d |-> "dB", n |-> 2], extPeriod |-> 2]
=============================================================================
