SPECIFICATION MSpec
CONSTANTS
  UserSeq <- MonUsers
  NA <- MonNA
  D <- MonD
  Dev = {}
  Check <- ClauseIds
CHECK_DEADLOCK FALSE
