------------------------------- MODULE FRProps -------------------------------
(***************************************************************************)
(* The property clauses C01..C19 of /verif/properties.jsonl, written once   *)
(* as operators over a STEP record                                          *)
(*    [pre, act, res, post, xfers, hooks, extra]                            *)
(* and the ghost (history) record before (g) and after (g2) the step.       *)
(* The same operators are evaluated by TLC (a) on every transition of the   *)
(* design (MC_*.cfg) and (b) by Monitor.tla on traces recorded from the     *)
(* real keeper.  Clause identifiers are listed in DESIGN.md Appendix C.     *)
(*                                                                         *)
(* Per-bidder clauses quantify over bidders other than the auctioneer: an   *)
(* auctioneer bidding in their own auction pays themself, so what they      *)
(* "paid" or "received" cancels out of every balance and is not observable  *)
(* (the ordered transfer list is still compared by conformance).            *)
(***************************************************************************)
EXTENDS Fundraising

SumU(F(_)) == Sum([k \in 1..Len(UserSeq) |-> F(UserSeq[k])])
Flow(xs, f, t, d) == Sum(MapSeq(xs, LAMBDA x : IF x.f = f /\ x.t = t /\ x.d = d THEN x.n ELSE 0))
FlowFrom(xs, f, d) == Sum(MapSeq(xs, LAMBDA x : IF x.f = f /\ x.d = d THEN x.n ELSE 0))
IsPrefixSeq(p, q) == Len(p) <= Len(q) /\ \A i \in 1..Len(p) : p[i] = q[i]
NAuc(s) == Len(s.auctions)
IsMsg(a) == a.a \in {"CreateFixed", "CreateBatch", "Cancel", "MsgAddAllowed", "Bid", "Modify", "UpdateParams"}
IsApi(a) == a.a \in {"AddAllowed", "UpdateAllowed"}
Terminal(st) == st \in {"Finished", "Cancelled"}
Rank(st) == CASE st = "StandBy" -> 0 [] st = "Started" -> 1 [] st = "Vesting" -> 2
              [] st = "Finished" -> 3 [] st = "Cancelled" -> 3 [] OTHER -> 9

(* the auction index (1-based) a message step targets; 0 if none *)
Target(step) ==
  LET m == step.act IN
  CASE m.a \in {"CreateFixed", "CreateBatch"} -> IF step.res.ok THEN NAuc(step.post) ELSE 0
    [] m.a \in {"Cancel", "AddAllowed", "UpdateAllowed", "MsgAddAllowed", "Bid", "Modify"} ->
         IF Exists(step.pre, m.id) THEN m.id + 1 ELSE 0
    [] OTHER -> 0

Settled(step, i) ==
  /\ step.act.a = "Block" /\ step.res.ok
  /\ i <= NAuc(step.pre)
  /\ step.pre.auctions[i].status = "Started"
  /\ step.post.auctions[i].status \in {"Vesting", "Finished"}

----------------------------------------------------------------------------
(* Ghost: facts about the observed history that are not part of the module state *)
ZeroD == [d \in Denoms |-> 0]
Ghost0 == [don    |-> [e \in EscAccts |-> ZeroD],      \* donated and not yet swept
           inPay  |-> [i \in 1..NA |-> ZeroU],          \* paying coins reserved by each bidder
           outSell|-> [i \in 1..NA |-> ZeroU],          \* selling escrow -> user
           outPay |-> [i \in 1..NA |-> ZeroU],          \* paying escrow -> user
           vestIn |-> [i \in 1..NA |-> 0],              \* paying escrow -> vesting escrow
           vestOut|-> [i \in 1..NA |-> 0],              \* vesting escrow -> auctioneer
           sweptSell |-> [i \in 1..NA |-> 0],           \* donations swept out of the selling escrow
           sweptPay  |-> [i \in 1..NA |-> 0],
           fees   |-> ZeroD,                           \* fees of accepted messages
           prevM  |-> [i \in 1..NA |-> 0],             \* C13: number of bids matched at the auction's previous end time (0: none yet)
           peakM  |-> [i \in 1..NA |-> 0]]             \* largest number of bids matched at any earlier end time (goal-directed coverage only)

FeeOf(step) ==
  LET m == step.act IN
  IF ~step.res.ok THEN NoFee
  ELSE IF m.a \in {"CreateFixed", "CreateBatch"} THEN step.pre.params.createFee
  ELSE IF m.a = "Bid" THEN step.pre.params.bidFee
  ELSE NoFee

GhostNext(g, step) ==
  LET m    == step.act
      pre  == step.pre
      post == step.post
      xs   == step.xfers
      ok   == step.res.ok
      fee  == FeeOf(step)
      \* 1. donations
      g1 == IF ok /\ m.a = "Donate" /\ m.to \in EscAccts
            THEN [g EXCEPT !.don[m.to][m.d] = @ + m.n] ELSE g
      \* 2. sweeps: selling escrow when leaving {StandBy, Started}; paying escrow when leaving Started
      LeftOpen(i) == pre.auctions[i].status \in {"StandBy", "Started"}
                     /\ post.auctions[i].status \notin {"StandBy", "Started"}
      LeftStarted(i) == pre.auctions[i].status = "Started" /\ post.auctions[i].status # "Started"
      g2 == [g1 EXCEPT
               !.sweptSell = [i \in 1..NA |-> IF i <= NAuc(pre) /\ LeftOpen(i)
                                THEN @[i] + g1.don[SellAcc(i - 1)][pre.auctions[i].sellDenom] ELSE @[i]],
               !.sweptPay  = [i \in 1..NA |-> IF i <= NAuc(pre) /\ LeftStarted(i)
                                THEN @[i] + g1.don[PayAcc(i - 1)][pre.auctions[i].payDenom] ELSE @[i]],
               !.don = [e \in EscAccts |-> [d \in Denoms |->
                          IF \E i \in 1..NAuc(pre) :
                                \/ (e = SellAcc(i - 1) /\ d = pre.auctions[i].sellDenom /\ LeftOpen(i))
                                \/ (e = PayAcc(i - 1) /\ d = pre.auctions[i].payDenom /\ LeftStarted(i))
                          THEN 0 ELSE @[e][d]]]]
      \* 3. ledger from the observed transfers
      A(i) == post.auctions[i]
      g3 == [g2 EXCEPT
               !.inPay = [i \in 1..NA |-> [u \in Users |->
                            IF i <= NAuc(post) /\ m.a \in {"Bid", "Modify"}
                            THEN @[i][u] + Flow(xs, u, PayAcc(i - 1), A(i).payDenom) ELSE @[i][u]]],
               !.outSell = [i \in 1..NA |-> [u \in Users |->
                            IF i <= NAuc(post) THEN @[i][u] + Flow(xs, SellAcc(i - 1), u, A(i).sellDenom) ELSE @[i][u]]],
               !.outPay = [i \in 1..NA |-> [u \in Users |->
                            IF i <= NAuc(post) THEN @[i][u] + Flow(xs, PayAcc(i - 1), u, A(i).payDenom) ELSE @[i][u]]],
               !.vestIn = [i \in 1..NA |->
                            IF i <= NAuc(post) THEN @[i] + Flow(xs, PayAcc(i - 1), VestAcc(i - 1), A(i).payDenom) ELSE @[i]],
               !.vestOut = [i \in 1..NA |->
                            IF i <= NAuc(post) THEN @[i] + Flow(xs, VestAcc(i - 1), A(i).auctioneer, A(i).payDenom) ELSE @[i]],
               !.fees = [d \in Denoms |-> @[d] + IF fee.d = d THEN fee.n ELSE 0],
               \* the matching the specification computes at an end time, not the count the code chose to store
               !.prevM = [i \in 1..NA |->
                            IF ok /\ m.a = "Block" /\ i <= NAuc(pre) /\ pre.auctions[i].status = "Started" /\ pre.auctions[i].type = "B"
                               /\ pre.auctions[i].ends[Len(pre.auctions[i].ends)] <= m.t
                            THEN Cardinality(Clearing(pre.bids[i], pre.allowed[i], pre.auctions[i].sellAmt).matched) ELSE @[i]]]
  IN [g3 EXCEPT !.peakM = [i \in 1..NA |-> IF g3.prevM[i] > @[i] THEN g3.prevM[i] ELSE @[i]]]

----------------------------------------------------------------------------
(* Declarative clearing (C03): lowest bid price whose capped demand fits supply *)
QtyAt(b, p) == IF b.type = "W" THEN (b.amt * D) \div p ELSE b.amt
RawDemandU(bids, u, p) == Sum(MapSeq(bids, LAMBDA b : IF b.bidder = u /\ b.price >= p THEN QtyAt(b, p) ELSE 0))
DemandU(bids, caps, u, p) == Min(RawDemandU(bids, u, p), caps[u])
Demand(bids, caps, p) == SumU(LAMBDA u : DemandU(bids, caps, u, p))
FitSet(bids, caps, S) == {p \in PriceSet(bids) : Demand(bids, caps, p) <= S}
ClearPrice(bids, caps, S) ==
  LET F == FitSet(bids, caps, S) IN
  IF F = {} THEN 0 ELSE CHOOSE p \in F : \A q \in F : p <= q
Sold(bids, caps, S) == ClearPrice(bids, caps, S) > 0 /\ Demand(bids, caps, ClearPrice(bids, caps, S)) > 0
NBidsAtOrAbove(bids, u, p) == Sum(MapSeq(bids, LAMBDA b : IF b.bidder = u /\ b.price >= p THEN 1 ELSE 0))

(* funds: the transfers an accepted message makes, in order, can all be paid *)
Funds(pre, xs) == ApplyX(pre.bal, xs, 1).ok
CreateXs(pre, m) == FeeX(m.by, pre.params.createFee) \o <<X(m.by, "pool", m.sellDenom, m.sellAmt)>>
   \* (recipient irrelevant for the funds test)
BidXs(pre, m) ==
  LET a == Auc(pre, m.id) IN
  FeeX(m.by, pre.params.bidFee) \o <<X(m.by, "pool", a.payDenom, Reserve(NewBid(pre, m), a.payDenom))>>
ModifyXs(pre, m) ==
  LET a == Auc(pre, m.id)
      b == pre.bids[m.id + 1][m.bid]
  IN <<X(m.by, "pool", a.payDenom,
         Reserve([b EXCEPT !.price = m.price, !.amt = m.amt], a.payDenom) - Reserve(b, a.payDenom))>>

(* C18: documented acceptance condition of every message *)
Accept(pre, m) ==
  CASE m.a \in {"CreateFixed", "CreateBatch"} -> CreateVB(m) /\ CreateK(pre, m) /\ Funds(pre, CreateXs(pre, m))
    [] m.a = "Cancel" -> CancelGuard(pre, m)
    [] m.a = "Bid" -> BidGuard(pre, m) /\ Funds(pre, BidXs(pre, m))
    [] m.a = "Modify" -> ModifyGuard(pre, m) /\ Funds(pre, ModifyXs(pre, m))
    [] m.a = "MsgAddAllowed" -> FALSE
    [] m.a = "UpdateParams" -> m.auth = "gov" /\ m.valid
    [] OTHER -> TRUE

----------------------------------------------------------------------------
ClauseIds == {
 "C01.sell", "C01.pay", "C01.vest", "C01.other_denoms",
 "C02.zero_sum", "C02.user_delta", "C02.block_no_debit", "C02.dues", "C02.pool", "C02.refund",
 "C03.alloc", "C03.nothing_sold",
 "C04.lower", "C04.upper", "C04.own_price", "C04.loser_refund", "C04.fixed_sell", "C04.fixed_pay",
 "C05.supply", "C05.cap_batch", "C05.asked", "C05.cap_fixed",
 "C06.accept", "C06.remaining", "C06.prefix", "C06.alloc",
 "C07.ok", "C07.reported",
 "C08.succ", "C08.refines", "C08.create_status", "C08.open_at", "C08.close_at", "C08.finish_at", "C08.cancel_only", "C08.bid_status",
 "C09.shares", "C09.no_schedule", "C09.release", "C09.once",
 "C10.listed", "C10.change_source", "C10.msg_rejected", "C10.switch",
 "C11.accept", "C11.effects", "C11.charge", "C11.no_delete", "C11.monotone",
 "C12.accept", "C12.effects",
 "C13.rule", "C13.limit", "C13.period", "C13.bounded",
 "C15.validate", "C15.roundtrip",
 "C16.flags", "C16.bidder_level", "C16.price", "C16.released", "C16.query",
 "C18.accept", "C18.unchanged",
 "C19.frame", "C19.not_due", "C19.terms", "C19.bid_terms", "C19.ids", "C19.independence", "C19.settle_alone",
 "C17.once", "C17.args", "C17.before", "C17.veto" }

ByProp == [
  C01 |-> {"C01.sell", "C01.pay", "C01.vest", "C01.other_denoms"},
  C02 |-> {"C02.zero_sum", "C02.user_delta", "C02.block_no_debit", "C02.dues", "C02.pool", "C02.refund"},
  C03 |-> {"C03.alloc", "C03.nothing_sold"},
  C04 |-> {"C04.lower", "C04.upper", "C04.own_price", "C04.loser_refund", "C04.fixed_sell", "C04.fixed_pay"},
  C05 |-> {"C05.supply", "C05.cap_batch", "C05.asked", "C05.cap_fixed"},
  C06 |-> {"C06.accept", "C06.remaining", "C06.prefix", "C06.alloc"},
  C07 |-> {"C07.ok", "C07.reported"},
  C08 |-> {"C08.succ", "C08.refines", "C08.create_status", "C08.open_at", "C08.close_at", "C08.finish_at", "C08.cancel_only", "C08.bid_status"},
  C09 |-> {"C09.shares", "C09.no_schedule", "C09.release", "C09.once"},
  C10 |-> {"C10.listed", "C10.change_source", "C10.msg_rejected", "C10.switch"},
  C11 |-> {"C11.accept", "C11.effects", "C11.charge", "C11.no_delete", "C11.monotone"},
  C12 |-> {"C12.accept", "C12.effects"},
  C13 |-> {"C13.rule", "C13.limit", "C13.period", "C13.bounded"},
  C15 |-> {"C15.validate", "C15.roundtrip"},
  C16 |-> {"C16.flags", "C16.bidder_level", "C16.price", "C16.released", "C16.query"},
  C17 |-> {"C17.once", "C17.args", "C17.before", "C17.veto"},
  C18 |-> {"C18.accept", "C18.unchanged"},
  C19 |-> {"C19.frame", "C19.not_due", "C19.terms", "C19.bid_terms", "C19.ids", "C19.independence", "C19.settle_alone"} ]

Holds(c, step, g, g2) ==
  LET pre  == step.pre
      post == step.post
      m    == step.act
      ok   == step.res.ok
      xs   == step.xfers
      nPre == NAuc(pre)
      nPost == NAuc(post)
      tgt  == Target(step)
      Bal(s, acc, d) == s.bal[acc][d]
      \* per settled batch auction: the declarative clearing on the PRE state
      CP(i)   == ClearPrice(pre.bids[i], pre.allowed[i], pre.auctions[i].sellAmt)
      SoldI(i) == Sold(pre.bids[i], pre.allowed[i], pre.auctions[i].sellAmt)
      Got(i, u) == Flow(xs, SellAcc(i - 1), u, pre.auctions[i].sellDenom)
      Back(i, u) == Flow(xs, PayAcc(i - 1), u, pre.auctions[i].payDenom)
      Res(i, u) == g2.inPay[i][u]      \* what the bidder actually paid into the paying escrow (observed)
      Bidders(i) == Users \ {pre.auctions[i].auctioneer}
      SettledB(i) == Settled(step, i) /\ pre.auctions[i].type = "B"
      SettledF(i) == Settled(step, i) /\ pre.auctions[i].type = "F"
      AccBidF == m.a = "Bid" /\ ok /\ tgt > 0 /\ pre.auctions[tgt].type = "F"
      Sig(a) == [auctioneer |-> a.auctioneer, sellDenom |-> a.sellDenom, sellAmt |-> a.sellAmt,
                 payDenom |-> a.payDenom, startPrice |-> a.startPrice, minBidPrice |-> a.minBidPrice,
                 maxExt |-> a.maxExt, extRate |-> a.extRate, sched |-> a.sched, start |-> a.start,
                 firstEnd |-> a.ends[1], type |-> a.type, id |-> a.id]
      BidSig(b) == [id |-> b.id, bidder |-> b.bidder, type |-> b.type, denom |-> b.denom]
      Due(s, i, t) == LET a == s.auctions[i] IN
                      \/ (a.status = "StandBy" /\ a.start <= t)
                      \/ (a.status = "Started" /\ Last(a.ends) <= t)
                      \/ (a.status = "Vesting" /\ \E k \in 1..Len(s.vqs[i]) : s.vqs[i][k].t <= t /\ ~s.vqs[i][k].released)
      AucView(s, i) == <<s.auctions[i], s.bids[i], s.allowed[i], s.vqs[i], s.lastMatched[i], s.bseq[i],
                         s.bal[SellAcc(i - 1)], s.bal[PayAcc(i - 1)], s.bal[VestAcc(i - 1)]>>
  IN
  CASE
  (* ---------------- C01 escrow equality (state clause on post) ---------------- *)
     c = "C01.sell" -> \A i \in 1..nPost : LET a == post.auctions[i] IN
        Bal(post, SellAcc(a.id), a.sellDenom)
          = (IF a.status \in {"StandBy", "Started"} THEN a.sellAmt ELSE 0) + g2.don[SellAcc(a.id)][a.sellDenom]
  [] c = "C01.pay" -> \A i \in 1..nPost : LET a == post.auctions[i] IN
        Bal(post, PayAcc(a.id), a.payDenom)
          = (IF a.status = "Started" THEN Sum(MapSeq(post.bids[i], LAMBDA b : Reserve(b, a.payDenom))) ELSE 0)
            + g2.don[PayAcc(a.id)][a.payDenom]
  [] c = "C01.vest" -> \A i \in 1..nPost : LET a == post.auctions[i] IN
        Bal(post, VestAcc(a.id), a.payDenom)
          = (IF a.status = "Vesting"
             THEN Sum(MapSeq(post.vqs[i], LAMBDA q : IF q.released THEN 0 ELSE q.amt)) ELSE 0)
            + g2.don[VestAcc(a.id)][a.payDenom]
  [] c = "C01.other_denoms" -> \A e \in EscAccts : \A d \in Denoms :
        LET own == \E i \in 1..nPost :
                     \/ (e = SellAcc(i - 1) /\ d = post.auctions[i].sellDenom)
                     \/ (e \in {PayAcc(i - 1), VestAcc(i - 1)} /\ d = post.auctions[i].payDenom)
        IN own \/ Bal(post, e, d) = g2.don[e][d]
  (* ---------------- C02 zero-sum, exact dues ---------------- *)
  [] c = "C02.zero_sum" -> \A d \in Denoms :
        /\ TotalBal(post, d) = TotalBal(pre, d)
        /\ post.supply[d] = pre.supply[d]
        /\ TotalBal(post, d) = post.supply[d]
  [] c = "C02.user_delta" ->
        IF ~(IsMsg(m) \/ IsApi(m) \/ m.a = "Genesis") THEN TRUE
        ELSE \A u \in Users : \A d \in Denoms :
          LET delta == Bal(post, u, d) - Bal(pre, u, d)
              fee   == FeeOf(step)
              feeD  == IF fee.d = d THEN fee.n ELSE 0
          IN IF ~ok \/ ~IsMsg(m) \/ m.a = "UpdateParams" \/ u # m.by THEN delta = 0
             ELSE CASE m.a \in {"CreateFixed", "CreateBatch"} ->
                         delta = -(feeD + IF d = m.sellDenom THEN m.sellAmt ELSE 0)
                    [] m.a = "Bid" ->
                         delta = -(feeD + IF d = pre.auctions[tgt].payDenom
                                          THEN Reserve(NewBid(pre, m), pre.auctions[tgt].payDenom) ELSE 0)
                    [] m.a = "Modify" ->
                         LET a == pre.auctions[tgt]
                             b == pre.bids[tgt][m.bid]
                         IN delta = -(IF d = a.payDenom
                                      THEN Reserve([b EXCEPT !.price = m.price, !.amt = m.amt], a.payDenom) - Reserve(b, a.payDenom)
                                      ELSE 0)
                    [] m.a = "Cancel" ->
                         delta = IF d = pre.auctions[tgt].sellDenom THEN Bal(pre, SellAcc(tgt - 1), d) ELSE 0
                    [] OTHER -> delta = 0
  [] c = "C02.block_no_debit" ->
        m.a = "Block" => \A u \in Users : \A d \in Denoms : Bal(post, u, d) >= Bal(pre, u, d)
  [] c = "C02.pool" -> \A d \in Denoms :
        /\ Bal(post, "pool", d) = g2.fees[d]
        /\ post.fp[d] = g2.fees[d]
  [] c = "C02.dues" -> \A i \in 1..nPost : LET a == post.auctions[i] IN
        Terminal(a.status) =>
          /\ SumU(LAMBDA u : g2.outSell[i][u]) = a.sellAmt + g2.sweptSell[i]
          /\ SumU(LAMBDA u : g2.outPay[i][u]) + g2.vestIn[i] = SumU(LAMBDA u : g2.inPay[i][u]) + g2.sweptPay[i]
          /\ g2.vestIn[i] = g2.vestOut[i]
          /\ \A u \in Users \ {a.auctioneer} : g2.outPay[i][u] <= g2.inPay[i][u]
          /\ Bal(post, SellAcc(a.id), a.sellDenom) = g2.don[SellAcc(a.id)][a.sellDenom]
          /\ Bal(post, PayAcc(a.id), a.payDenom) = g2.don[PayAcc(a.id)][a.payDenom]
          /\ Bal(post, VestAcc(a.id), a.payDenom) = g2.don[VestAcc(a.id)][a.payDenom]
  [] c = "C02.refund" -> \A i \in 1..nPre : SettledB(i) =>
        \A u \in Bidders(i) :
          /\ Got(i, u) = 0 => Back(i, u) = Res(i, u)
          /\ Got(i, u) > 0 => /\ (Res(i, u) - Back(i, u)) * D >= CP(i) * Got(i, u)
                              /\ (Res(i, u) - Back(i, u)) * D < CP(i) * Got(i, u) + NBidsAtOrAbove(pre.bids[i], u, CP(i)) * D
  (* ---------------- C03 clearing price ---------------- *)
  [] c = "C03.alloc" -> \A i \in 1..nPre : (SettledB(i) /\ SoldI(i)) =>
        \A u \in Bidders(i) : Got(i, u) = DemandU(pre.bids[i], pre.allowed[i], u, CP(i))
  [] c = "C03.nothing_sold" -> \A i \in 1..nPre : (SettledB(i) /\ ~SoldI(i)) =>
        \A u \in Bidders(i) : Got(i, u) = 0 /\ Back(i, u) = Res(i, u)
  (* ---------------- C04 uniform price, rounding ---------------- *)
  [] c = "C04.lower" -> \A i \in 1..nPre : SettledB(i) =>
        \A u \in Bidders(i) : Got(i, u) > 0 => (Res(i, u) - Back(i, u)) * D >= CP(i) * Got(i, u)
  [] c = "C04.upper" -> \A i \in 1..nPre : SettledB(i) =>
        \A u \in Bidders(i) : Got(i, u) > 0 =>
           /\ (Res(i, u) - Back(i, u)) * D < CP(i) * Got(i, u) + NBidsAtOrAbove(pre.bids[i], u, CP(i)) * D
           /\ Back(i, u) >= 0 /\ Res(i, u) - Back(i, u) >= 0
  [] c = "C04.own_price" -> \A i \in 1..nPre : SettledB(i) =>
        \A u \in Bidders(i) : Got(i, u) > 0 => (CP(i) > 0 /\ NBidsAtOrAbove(pre.bids[i], u, CP(i)) > 0)
  [] c = "C04.loser_refund" -> \A i \in 1..nPre : SettledB(i) =>
        \A u \in Bidders(i) : Got(i, u) = 0 => Back(i, u) = Res(i, u)
  [] c = "C04.fixed_sell" -> AccBidF =>
        LET a == pre.auctions[tgt]
            q == a.remaining - post.auctions[tgt].remaining
            r == Bal(post, PayAcc(a.id), a.payDenom) - Bal(pre, PayAcc(a.id), a.payDenom)
        IN m.denom = a.sellDenom => (q = m.amt /\ r * D - a.startPrice * q >= 0 /\ r * D - a.startPrice * q < D)
  [] c = "C04.fixed_pay" -> AccBidF =>
        LET a == pre.auctions[tgt]
            q == a.remaining - post.auctions[tgt].remaining
            r == Bal(post, PayAcc(a.id), a.payDenom) - Bal(pre, PayAcc(a.id), a.payDenom)
        IN m.denom = a.payDenom => (r = m.amt /\ r * D - q * a.startPrice >= 0 /\ r * D - q * a.startPrice < a.startPrice)
  (* ---------------- C05 allowance, request, supply ---------------- *)
  [] c = "C05.supply" -> \A i \in 1..nPre : Settled(step, i) =>
        Sum([k \in 1..Len(UserSeq) |-> IF UserSeq[k] \in Bidders(i) THEN Got(i, UserSeq[k]) ELSE 0]) <= pre.auctions[i].sellAmt
  [] c = "C05.cap_batch" -> \A i \in 1..nPre : SettledB(i) =>
        \A u \in Bidders(i) : Got(i, u) <= pre.allowed[i][u]
  [] c = "C05.asked" -> \A i \in 1..nPre : Settled(step, i) =>
        \A u \in Bidders(i) :
          IF pre.auctions[i].type = "B"
          THEN Got(i, u) <= (IF CP(i) > 0 THEN RawDemandU(pre.bids[i], u, CP(i)) ELSE 0)
          ELSE Got(i, u) <= BidderTotal(pre.bids[i], u, pre.auctions[i].payDenom)
  [] c = "C05.cap_fixed" -> AccBidF =>
        BidderTotal(post.bids[tgt], m.by, pre.auctions[tgt].payDenom) <= pre.allowed[tgt][m.by]
  (* ---------------- C06 fixed-price FCFS ---------------- *)
  [] c = "C06.accept" ->
        (m.a = "Bid" /\ ((Exists(pre, m.id) /\ Auc(pre, m.id).type = "F") \/ m.type = "F")) =>
           (ok <=> (Accept(pre, m) /\ ~Vetoed(pre, m)))
  [] c = "C06.remaining" -> \A i \in 1..nPost : LET a == post.auctions[i] IN
        (a.type = "F" /\ a.status # "Cancelled") =>
           a.remaining = a.sellAmt - AllTotal(post.bids[i], a.payDenom)
  [] c = "C06.prefix" -> AccBidF =>
        /\ Len(post.bids[tgt]) = Len(pre.bids[tgt]) + 1
        /\ IsPrefixSeq(pre.bids[tgt], post.bids[tgt])
        /\ post.auctions[tgt].remaining = pre.auctions[tgt].remaining - ToSelling(NewBid(pre, m), pre.auctions[tgt].payDenom)
  [] c = "C06.alloc" -> \A i \in 1..nPre : SettledF(i) =>
        \A u \in Bidders(i) : Got(i, u) = BidderTotal(pre.bids[i], u, pre.auctions[i].payDenom)
  (* ---------------- C07 block processing ---------------- *)
  [] c = "C07.ok" -> (m.a = "Block" /\ m.fault = 0 /\ ~Vetoed(pre, m)) => (ok /\ ~step.extra.panic)
  [] c = "C07.reported" -> (m.a = "Block" /\ m.fault > 0 /\ m.fault <= step.extra.nx) => ~ok
  (* ---------------- C08 lifecycle ---------------- *)
  [] c = "C08.succ" -> \A i \in 1..nPre :
        LET a == pre.auctions[i].status
            b == post.auctions[i].status
        IN \/ a = b
           \/ (a = "StandBy" /\ b \in {"Started", "Cancelled"})
           \/ (a = "Started" /\ b \in {"Vesting", "Finished"})
           \/ (a = "Vesting" /\ b = "Finished")
  [] c = "C08.refines" -> \A i \in 1..nPre :
        LET a == pre.auctions[i] b == post.auctions[i]
            rel == IF Len(a.sched) > 0 THEN Last(a.sched).t ELSE 0
        IN LStep(a.status, Len(a.ends), Last(a.ends), a.start, a.type = "B", Len(a.sched) > 0, rel, a.maxExt,
                 pre.params.extPeriod, m.a = "Block" /\ ok, IF m.a = "Block" THEN m.t ELSE 0,
                 b.status, Len(b.ends), Last(b.ends))
  [] c = "C08.create_status" ->
        (m.a \in {"CreateFixed", "CreateBatch"} /\ ok) =>
           post.auctions[nPost].status = (IF m.start <= pre.now THEN "Started" ELSE "StandBy")
  [] c = "C08.open_at" -> (m.a = "Block" /\ ok) => \A i \in 1..nPre :
        pre.auctions[i].status = "StandBy" =>
           post.auctions[i].status = (IF pre.auctions[i].start <= m.t THEN "Started" ELSE "StandBy")
  [] c = "C08.close_at" -> (m.a = "Block" /\ ok) => \A i \in 1..nPre :
        LET a == pre.auctions[i] b == post.auctions[i] IN
        a.status = "Started" =>
           IF Last(a.ends) > m.t THEN b.status = "Started" /\ b.ends = a.ends
           ELSE IF a.type = "F" THEN b.status \in {"Vesting", "Finished"}
           ELSE (b.status \in {"Vesting", "Finished"} \/ (b.status = "Started" /\ Len(b.ends) = Len(a.ends) + 1))
  [] c = "C08.finish_at" -> \A i \in 1..nPre :
        LET a == pre.auctions[i] b == post.auctions[i] IN
        /\ (a.status = "Vesting" /\ b.status = "Finished") =>
              (m.a = "Block" /\ \A k \in 1..Len(post.vqs[i]) : post.vqs[i][k].released)
        /\ (a.status = "Vesting" /\ m.a = "Block" /\ ok /\ Len(pre.vqs[i]) > 0 /\ Last(pre.vqs[i]).t <= m.t) => b.status = "Finished"
        /\ (b.status = "Vesting") => (Len(post.vqs[i]) > 0 /\ ~Last(post.vqs[i]).released)
        /\ (a.status = "Started" /\ b.status = "Finished") => Len(a.sched) = 0
        /\ (a.status = "Started" /\ b.status = "Vesting") => Len(a.sched) > 0
  [] c = "C08.cancel_only" -> \A i \in 1..nPre :
        /\ (pre.auctions[i].status # "Cancelled" /\ post.auctions[i].status = "Cancelled") => (m.a = "Cancel" /\ tgt = i)
        /\ ((IsMsg(m) \/ IsApi(m) \/ m.a \in {"Donate", "Genesis"}) /\ ~(m.a = "Cancel" /\ tgt = i)) =>
              post.auctions[i].status = pre.auctions[i].status
  [] c = "C08.bid_status" -> (m.a \in {"Bid", "Modify"} /\ ok) => (tgt > 0 /\ pre.auctions[tgt].status = "Started")
  (* ---------------- C09 vesting ---------------- *)
  [] c = "C09.shares" -> \A i \in 1..nPre : (Settled(step, i) /\ Len(pre.auctions[i].sched) > 0) =>
        LET a == pre.auctions[i]
            P == Flow(xs, PayAcc(a.id), VestAcc(a.id), a.payDenom)
            q == post.vqs[i]
            n == Len(a.sched)
        IN /\ Len(q) = n
           /\ \A k \in 1..n : q[k].t = a.sched[k].t /\ ~q[k].released
           /\ \A k \in 1..(n - 1) : q[k].amt = (P * a.sched[k].w) \div D
           /\ Sum(MapSeq(q, LAMBDA e : e.amt)) = P
           /\ post.auctions[i].status = "Vesting"
  [] c = "C09.no_schedule" -> \A i \in 1..nPre : (Settled(step, i) /\ Len(pre.auctions[i].sched) = 0) =>
        /\ post.auctions[i].status = "Finished" /\ Len(post.vqs[i]) = 0
        /\ Bal(post, PayAcc(i - 1), pre.auctions[i].payDenom) = g2.don[PayAcc(i - 1)][pre.auctions[i].payDenom]
  [] c = "C09.release" -> \A i \in 1..nPre : pre.auctions[i].status = "Vesting" =>
        LET a == pre.auctions[i]
            q == pre.vqs[i]
            r == post.vqs[i]
        IN /\ Len(r) = Len(q)
           /\ \A k \in 1..Len(q) : r[k].t = q[k].t /\ r[k].amt = q[k].amt
           /\ \A k \in 1..Len(q) : r[k].released =
                  (q[k].released \/ (m.a = "Block" /\ ok /\ q[k].t <= m.t))
           /\ Flow(xs, VestAcc(a.id), a.auctioneer, a.payDenom)
                = Sum([k \in 1..Len(q) |-> IF r[k].released /\ ~q[k].released THEN q[k].amt ELSE 0])
  [] c = "C09.once" -> \A i \in 1..nPost :
        /\ g2.vestOut[i] = Sum(MapSeq(post.vqs[i], LAMBDA e : IF e.released THEN e.amt ELSE 0))
        /\ (i <= nPre => \A k \in 1..Len(pre.vqs[i]) : pre.vqs[i][k].released =>
                (k <= Len(post.vqs[i]) /\ post.vqs[i][k].released))
  (* ---------------- C10 allow-list gate ---------------- *)
  [] c = "C10.listed" ->
        /\ \A i \in 1..nPost : \A k \in 1..Len(post.bids[i]) : post.allowed[i][post.bids[i][k].bidder] > 0
        /\ (m.a = "Bid" /\ ok) => pre.allowed[tgt][m.by] > 0
  [] c = "C10.change_source" ->
        (\E i \in 1..nPre : post.allowed[i] # pre.allowed[i]) => (IsApi(m) /\ ok)
  [] c = "C10.msg_rejected" -> m.a = "MsgAddAllowed" => (~ok /\ post = pre)
  [] c = "C10.switch" -> ~post.switchOn
  (* ---------------- C11 bids only grow ---------------- *)
  [] c = "C11.accept" -> m.a = "Modify" => (ok <=> (Accept(pre, m) /\ ~Vetoed(pre, m)))
  [] c = "C11.effects" -> (m.a = "Modify" /\ ok) =>
        LET b == pre.bids[tgt][m.bid] nb == post.bids[tgt][m.bid] IN
        /\ nb = [b EXCEPT !.price = m.price, !.amt = m.amt]
        /\ \A k \in 1..Len(pre.bids[tgt]) : k # m.bid => post.bids[tgt][k] = pre.bids[tgt][k]
        /\ Len(post.bids[tgt]) = Len(pre.bids[tgt])
  [] c = "C11.charge" -> (m.a = "Modify" /\ ok) =>
        LET a == pre.auctions[tgt]
            b == pre.bids[tgt][m.bid]
            diff == Reserve([b EXCEPT !.price = m.price, !.amt = m.amt], a.payDenom) - Reserve(b, a.payDenom)
        IN /\ Bal(post, PayAcc(a.id), a.payDenom) - Bal(pre, PayAcc(a.id), a.payDenom) = diff
           /\ Bal(pre, m.by, a.payDenom) - Bal(post, m.by, a.payDenom) = diff
  [] c = "C11.no_delete" -> \A i \in 1..nPre :
        /\ Len(post.bids[i]) >= Len(pre.bids[i])
        /\ \A k \in 1..Len(pre.bids[i]) : BidSig(post.bids[i][k]) = BidSig(pre.bids[i][k])
  [] c = "C11.monotone" -> \A i \in 1..nPre : \A k \in 1..Len(pre.bids[i]) :
        LET b == pre.bids[i][k] nb == post.bids[i][k] pd == pre.auctions[i].payDenom IN
        /\ nb.price >= b.price /\ nb.amt >= b.amt /\ Reserve(nb, pd) >= Reserve(b, pd)
        /\ (<<nb.price, nb.amt>> # <<b.price, b.amt>>) => (m.a = "Modify" /\ ok /\ tgt = i /\ m.bid = k)
  (* ---------------- C12 cancel ---------------- *)
  [] c = "C12.accept" -> m.a = "Cancel" => (ok <=> (CancelGuard(pre, m) /\ ~Vetoed(pre, m)))
  [] c = "C12.effects" -> (m.a = "Cancel" /\ ok) =>
        LET a == pre.auctions[tgt] IN
        /\ post.auctions[tgt].status = "Cancelled"
        /\ post.auctions[tgt].remaining = 0
        /\ Bal(post, SellAcc(a.id), a.sellDenom) = 0
        /\ Bal(post, a.auctioneer, a.sellDenom) = Bal(pre, a.auctioneer, a.sellDenom) + Bal(pre, SellAcc(a.id), a.sellDenom)
        /\ Bal(pre, SellAcc(a.id), a.sellDenom) >= a.sellAmt
  (* ---------------- C13 extended rounds ---------------- *)
  [] c = "C13.rule" -> (m.a = "Block" /\ ok) => \A i \in 1..nPre :
        LET a == pre.auctions[i] b == post.auctions[i] IN
        (a.status = "Started" /\ a.type = "B" /\ Last(a.ends) <= m.t) =>
           LET cur == Cardinality(Clearing(pre.bids[i], pre.allowed[i], a.sellAmt).matched)
               ext == ExtendDecision(a, g.prevM[i], cur)
           IN IF ext THEN b.status = "Started" /\ Len(b.ends) = Len(a.ends) + 1
              ELSE b.status \in {"Vesting", "Finished"} /\ b.ends = a.ends
  [] c = "C13.limit" -> (m.a = "Block" /\ ok) => \A i \in 1..nPre :
        LET a == pre.auctions[i] IN
        (a.status = "Started" /\ a.type = "B" /\ Last(a.ends) <= m.t /\ Len(a.ends) = a.maxExt + 1) =>
           post.auctions[i].status \in {"Vesting", "Finished"}
  [] c = "C13.period" -> \A i \in 1..nPre :
        LET a == pre.auctions[i] b == post.auctions[i] IN
        b.ends # a.ends =>
          /\ m.a = "Block" /\ a.type = "B"
          /\ b.ends = Append(a.ends, Last(a.ends) + pre.params.extPeriod)
          /\ [b EXCEPT !.ends = a.ends] = a
  [] c = "C13.bounded" -> \A i \in 1..nPost :
        LET a == post.auctions[i] IN Len(a.ends) >= 1 /\ Len(a.ends) <= a.maxExt + 1
  (* ---------------- C15 genesis ---------------- *)
  [] c = "C15.validate" -> m.a = "Genesis" => (ok /\ step.extra.validate_ok)
  [] c = "C15.roundtrip" -> m.a = "Genesis" => post = pre
  (* ---------------- C16 published results ---------------- *)
  [] c = "C16.flags" -> \A i \in 1..nPre :
        /\ SettledB(i) => \A k \in 1..Len(pre.bids[i]) :
             LET b == pre.bids[i][k] nb == post.bids[i][k] u == b.bidder
                 capBinds == RawDemandU(pre.bids[i], u, CP(i)) > pre.allowed[i][u]
             IN IF ~SoldI(i) THEN ~nb.matched
                ELSE IF capBinds THEN (nb.matched => b.price >= CP(i))
                ELSE (nb.matched <=> (b.price >= CP(i) /\ QtyAt(b, CP(i)) > 0))
        /\ SettledF(i) => \A k \in 1..Len(pre.bids[i]) :
             post.bids[i][k].matched <=> (ToSelling(pre.bids[i][k], pre.auctions[i].payDenom) > 0)
  [] c = "C16.bidder_level" -> \A i \in 1..nPre : Settled(step, i) =>
        \A u \in Bidders(i) :
          (Got(i, u) > 0) <=> (\E k \in 1..Len(post.bids[i]) : post.bids[i][k].bidder = u /\ post.bids[i][k].matched)
  [] c = "C16.price" -> \A i \in 1..nPre :
        /\ SettledB(i) => post.auctions[i].matchedPrice = (IF SoldI(i) THEN CP(i) ELSE 0)
        /\ (pre.auctions[i].type = "B" /\ ~SettledB(i)) => post.auctions[i].matchedPrice = pre.auctions[i].matchedPrice
  [] c = "C16.released" -> \A i \in 1..nPost :
        g2.vestOut[i] = Sum(MapSeq(post.vqs[i], LAMBDA e : IF e.released THEN e.amt ELSE 0))
  [] c = "C16.query" -> m.a = "Query" =>
        /\ LET got == step.extra.answer
               exp == QueryAnswer(pre, m)
           IN \* "exactly the stored objects that satisfy the request": same objects, none twice; the
              \* order of a listing (store key order, e.g. raw address bytes) is not part of the property
              /\ Len(got) = Len(exp)
              /\ IF "limit" \in DOMAIN m /\ m.q # "ListAllowedBidder"
                 THEN got = exp             \* a page is a slice of the listing in store order (keys ascending)
                 ELSE IF "limit" \in DOMAIN m
                 THEN \* allow-list entries are stored in raw address order, which the model does not know: a page must
                      \* consist of distinct objects that satisfy the request
                      LET all == QueryAll(pre, m) IN
                      /\ \A k \in 1..Len(got) : \E j \in 1..Len(all) : got[k] = all[j]
                      /\ \A k, j \in 1..Len(got) : k # j => got[k] # got[j]
                 ELSE {got[k] : k \in 1..Len(got)} = {exp[k] : k \in 1..Len(exp)}
              /\ step.extra.page = PageInfo(pre, m)
        /\ post = pre
        /\ (ok <=> (m.q \notin {"GetAuction", "GetBid", "GetAllowedBidder"} \/ QueryAnswer(pre, m) # <<>>))
  (* ---------------- C17 hooks ---------------- *)
  [] c = "C17.once" -> (ok /\ pre.nl > 0) =>
        MapSeq(step.hooks, LAMBDA e : <<e.h, e.l>>) = MapSeq(Do(pre, m).hooks, LAMBDA e : <<e.h, e.l>>)
  [] c = "C17.args" -> (ok /\ pre.nl > 0) =>
        MapSeq(step.hooks, LAMBDA e : e.args) = MapSeq(Do(pre, m).hooks, LAMBDA e : e.args)
  [] c = "C17.before" -> \A k \in 1..Len(step.hooks) : ~IsAfterHook(step.hooks[k].h) => ~step.hooks[k].seen
  [] c = "C17.veto" -> (pre.nl > 0 /\ Vetoed(pre, m)) =>
        /\ ~ok /\ post = pre
        /\ MapSeq(step.hooks, LAMBDA e : <<e.h, e.l>>) = MapSeq(Do(pre, m).hooks, LAMBDA e : <<e.h, e.l>>)
  (* ---------------- C18 acceptance exactness ---------------- *)
  [] c = "C18.accept" -> IsMsg(m) => (ok <=> (Accept(pre, m) /\ ~Vetoed(pre, m)))
  [] c = "C18.unchanged" -> ~ok => post = pre
  (* ---------------- C19 frame, immutable terms ---------------- *)
  [] c = "C19.frame" -> (IsMsg(m) \/ IsApi(m)) => \A j \in 1..nPre : j # tgt => AucView(post, j) = AucView(pre, j)
  [] c = "C19.not_due" -> m.a = "Block" => \A j \in 1..nPre : ~Due(pre, j, m.t) => AucView(post, j) = AucView(pre, j)
  [] c = "C19.terms" -> \A j \in 1..nPre : Sig(post.auctions[j]) = Sig(pre.auctions[j])
  [] c = "C19.bid_terms" -> \A j \in 1..nPre : \A k \in 1..Len(pre.bids[j]) :
        k <= Len(post.bids[j]) /\ BidSig(post.bids[j][k]) = BidSig(pre.bids[j][k])
  [] c = "C19.independence" -> (m.a \in {"Bid", "Modify"} /\ tgt > 0) =>
        LET alone == [pre EXCEPT !.bids = [j \in 1..nPre |-> IF j = tgt THEN pre.bids[j] ELSE <<>>],
                                 !.allowed = [j \in 1..nPre |-> IF j = tgt THEN pre.allowed[j] ELSE ZeroU]]
        IN ok <=> (Accept(alone, m) /\ ~Vetoed(pre, m))
  [] c = "C19.settle_alone" -> \A i \in 1..nPre : SettledB(i) =>
        \* what a bidder receives is decided by this auction's own bids and allow-list only
        \A u \in Bidders(i) : Got(i, u) = (IF SoldI(i) THEN DemandU(pre.bids[i], pre.allowed[i], u, CP(i)) ELSE 0)
  [] c = "C19.ids" ->
        /\ nPost >= nPre
        /\ \A j \in (nPre + 1)..nPost : \A k \in 1..nPre : post.auctions[j].id > pre.auctions[k].id
        /\ \A j, k \in 1..nPost : j # k => post.auctions[j].id # post.auctions[k].id
        /\ \A j \in 1..nPre : \A k \in (Len(pre.bids[j]) + 1)..Len(post.bids[j]) :
              \A l \in 1..Len(pre.bids[j]) : post.bids[j][k].id > pre.bids[j][l].id
        /\ \A j \in 1..nPost : \A k, l \in 1..Len(post.bids[j]) : k # l => post.bids[j][k].id # post.bids[j][l].id
        /\ (nPost > nPre => m.a \in {"CreateFixed", "CreateBatch"})

Fails(step, g, g2, cs) == {c \in cs \cap ClauseIds : ~Holds(c, step, g, g2)}

----------------------------------------------------------------------------
(* Named situations for goal-directed transition coverage (FRShell!EmitT with Goals # {}): in a large bounded   *)
(* instance only the transitions in which such a situation occurs are handed to the real code.  They are the  *)
(* situations that a uniform sample of a large instance, or a random generator, reaches too rarely.           *)
GoalNames == {"rematch_after_empty_round", "empty_round_after_match", "rate_boundary", "cap_with_other_auction",
              "two_settle_in_block", "exact_remaining", "bid_on_sold_out", "nothing_sold_early_settle", "overdemand_with_surplus", "closed_auction_op", "settle_fixed_after_dust_bid"}
Goal(n, step, g) ==
  LET pre == step.pre
      m   == step.act
      ok  == step.res.ok
      nA  == Len(pre.auctions)
      Closing(i) == LET a == pre.auctions[i] IN
                      m.a = "Block" /\ ok /\ a.status = "Started" /\ a.type = "B" /\ a.ends[Len(a.ends)] <= m.t
      Cur(i) == Cardinality(Clearing(pre.bids[i], pre.allowed[i], pre.auctions[i].sellAmt).matched)
      RoundsLeft(i) == Len(pre.auctions[i].ends) < pre.auctions[i].maxExt + 1
  IN
  CASE n = "rematch_after_empty_round" ->
         \E i \in 1..nA : Closing(i) /\ RoundsLeft(i) /\ g.peakM[i] > 0 /\ g.prevM[i] = 0 /\ Cur(i) > 0
    [] n = "empty_round_after_match" ->
         \E i \in 1..nA : Closing(i) /\ g.prevM[i] > 0 /\ Cur(i) = 0
    [] n = "rate_boundary" ->
         \E i \in 1..nA : Closing(i) /\ RoundsLeft(i) /\ g.prevM[i] > 0
                           /\ (g.prevM[i] - Cur(i)) * D = pre.auctions[i].extRate * g.prevM[i]
    [] n = "cap_with_other_auction" ->     \* a further bid of a bidder who also holds a bid in another auction
         /\ m.a = "Bid" /\ m.id \in 0..(nA - 1) /\ m.by \in Users
         /\ \E k \in 1..Len(pre.bids[m.id + 1]) : pre.bids[m.id + 1][k].bidder = m.by
         /\ \E j \in 1..nA : j # m.id + 1 /\ \E k \in 1..Len(pre.bids[j]) : pre.bids[j][k].bidder = m.by
    [] n = "two_settle_in_block" ->
         m.a = "Block" /\ ok /\ Cardinality({i \in 1..nA : pre.auctions[i].status = "Started" /\ step.post.auctions[i].status # "Started"}) >= 2
    [] n = "exact_remaining" ->
         /\ m.a = "Bid" /\ m.id \in 0..(nA - 1) /\ pre.auctions[m.id + 1].type = "F" /\ ok
         /\ step.post.auctions[m.id + 1].remaining = 0
    [] n = "bid_on_sold_out" ->           \* any bid, accepted or not, on a fixed-price auction that is open and sold out
         /\ m.a = "Bid" /\ m.id \in 0..(nA - 1) /\ pre.auctions[m.id + 1].type = "F"
         /\ pre.auctions[m.id + 1].status = "Started" /\ pre.auctions[m.id + 1].remaining = 0
    [] n = "nothing_sold_early_settle" -> \* settled by the rate rule (rounds left) with a non-empty book of which nothing is sold
         \E i \in 1..nA : /\ Closing(i) /\ RoundsLeft(i) /\ g.prevM[i] > 0 /\ Len(pre.bids[i]) > 0
                           /\ ~ExtendDecision(pre.auctions[i], g.prevM[i], Cur(i))
                           /\ Clearing(pre.bids[i], pre.allowed[i], pre.auctions[i].sellAmt).total = 0
    [] n = "overdemand_with_surplus" ->   \* a batch auction is matched while its selling escrow holds donated coins and the book asks for more than is offered
         \E i \in 1..nA : /\ Closing(i) /\ g.don[SellAcc(i - 1)][pre.auctions[i].sellDenom] > 0
                           /\ AllTotal(pre.bids[i], pre.auctions[i].payDenom) > pre.auctions[i].sellAmt
    [] n = "closed_auction_op" ->   \* a bid, a modification or a cancellation that only the auction's status forbids
         /\ m.a \in {"Bid", "Modify", "Cancel"} /\ m.id \in 0..(nA - 1) /\ m.by \in Users
         /\ LET a == pre.auctions[m.id + 1] IN
            (CASE m.a = "Bid" -> a.status # "Started" /\ pre.allowed[m.id + 1][m.by] > 0 /\ m.amt > 0 /\ m.price > 0
                                /\ m.type = (IF a.type = "F" THEN "F" ELSE m.type) /\ m.type \in {"F", "W", "M"}
              [] m.a = "Modify" -> a.status # "Started" /\ a.type = "B" /\ m.bid \in 1..Len(pre.bids[m.id + 1])
                                   /\ LET b == pre.bids[m.id + 1][m.bid] IN
                                        b.bidder = m.by /\ b.denom = m.denom /\ m.price >= b.price /\ m.amt >= b.amt
                                        /\ (m.price > b.price \/ m.amt > b.amt)
              [] m.a = "Cancel" -> a.status # "StandBy" /\ a.auctioneer = m.by)
    [] n = "settle_fixed_after_dust_bid" ->   \* a fixed-price auction settles with a bid worth no coin placed before a bid worth some
         /\ m.a = "Block" /\ ok
         /\ \E i \in 1..nA : /\ pre.auctions[i].type = "F" /\ pre.auctions[i].status = "Started" /\ step.post.auctions[i].status # "Started"
                              /\ \E j, k \in 1..Len(pre.bids[i]) : j < k /\ ToSelling(pre.bids[i][j], pre.auctions[i].payDenom) = 0
                                                                    /\ ToSelling(pre.bids[i][k], pre.auctions[i].payDenom) > 0
    [] OTHER -> FALSE
=============================================================================
