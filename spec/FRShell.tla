------------------------------- MODULE FRShell -------------------------------
(***************************************************************************)
(* TLA+ shell around the functional core: ordinary variables, one step =    *)
(* one input applied through Do.  Used by the exhaustive configurations     *)
(* (MC_*.tla) and by the behaviour generators (Gen_*.tla).                  *)
(* The environment is the only source of nondeterminism: which input next.  *)
(***************************************************************************)
EXTENDS FRProps, Json

CONSTANTS
  Inputs(_, _, _),  \* (kind, state, ghost) -> finite set of input records of that kind offered there
  Bal0,          \* initial balance of every user: [Users -> [Denoms -> Nat]]
  Params0,       \* initial module parameters
  RejectSample,  \* transition coverage: emit one in RejectSample rejected inputs (0: none)
  NL,            \* number of registered hook listeners (C17); 0 in most instances
  KeepHist,      \* TRUE: hist records every input (generators); FALSE: stays empty
  GenDepth,      \* generators: behaviour length at which the input history is written out
  GenDir,        \* generators: directory for the emitted behaviours
  KindBag,       \* generators: set of <<kind, k>> pairs; the multiplicity of a kind is its weight
  Goals          \* transition coverage: {} = emit every state-changing transition; otherwise emit exactly the transitions
                 \* (accepted or rejected) in which one of these named situations (FRProps!Goal) occurs

VARIABLES st, act, res, xfers, hooks, extra, ghost, hist
vars == <<st, act, res, xfers, hooks, extra, ghost, hist>>

S0 == [InitState(Bal0, Params0, FALSE) EXCEPT !.nl = NL]
InitAct == [a |-> "Init", users |-> UserSeq, na |-> NA, grid |-> D, bal0 |-> Bal0, params |-> Params0, listeners |-> NL]
NoExtra == [panic |-> FALSE, nx |-> 0, validate_ok |-> TRUE, answer |-> <<>>, page |-> [total |-> 0, more |-> FALSE], modinv |-> <<>>]

Init ==
  /\ st = S0
  /\ act = InitAct
  /\ res = [ok |-> TRUE, err |-> ""]
  /\ xfers = <<>>
  /\ hooks = <<>>
  /\ extra = NoExtra
  /\ ghost = Ghost0
  /\ hist = <<>>

ExtraOf(s, m) ==
  IF m.a = "Block" THEN [NoExtra EXCEPT !.nx = Len(BlockRun(s, m.t).xs)]
  ELSE IF m.a = "Query" THEN [NoExtra EXCEPT !.answer = QueryAnswer(s, m), !.page = PageInfo(s, m)]
  ELSE NoExtra

StepRec(s, m, r) == [pre |-> s, act |-> m, res |-> [ok |-> r.ok, err |-> r.err], post |-> r.st,
                     xfers |-> r.xfers, hooks |-> r.hooks, extra |-> ExtraOf(s, m)]

Apply(m) ==
  LET r == Do(st, m) IN
  /\ st' = r.st
  /\ act' = m
  /\ res' = [ok |-> r.ok, err |-> r.err]
  /\ xfers' = r.xfers
  /\ hooks' = r.hooks
  /\ extra' = ExtraOf(st, m)
  /\ ghost' = GhostNext(ghost, StepRec(st, m, r))
  /\ hist' = IF KeepHist THEN Append(hist, m) ELSE hist

(* one named action per Go entry point, so that TLC's coverage is per entry point *)
CreateFixedPriceAuction == \E m \in Inputs("CreateFixed", st, ghost) \cup {x \in Inputs("OddCreate", st, ghost) : x.a = "CreateFixed"} : Apply(m)
CreateBatchAuction      == \E m \in Inputs("CreateBatch", st, ghost) \cup {x \in Inputs("OddCreate", st, ghost) : x.a = "CreateBatch"} : Apply(m)
CancelAuction           == \E m \in Inputs("Cancel", st, ghost) \cup Inputs("OddCancel", st, ghost) : Apply(m)
AddAllowedBidders       == \E m \in Inputs("AddAllowed", st, ghost) \cup {x \in Inputs("OddAllow", st, ghost) : x.a = "AddAllowed"} : Apply(m)
UpdateAllowedBidder     == \E m \in Inputs("UpdateAllowed", st, ghost) \cup {x \in Inputs("OddAllow", st, ghost) : x.a = "UpdateAllowed"} : Apply(m)
MsgAddAllowedBidder     == \E m \in Inputs("MsgAddAllowed", st, ghost) \cup {x \in Inputs("OddAllow", st, ghost) : x.a = "MsgAddAllowed"} : Apply(m)
PlaceBid                == \E m \in Inputs("Bid", st, ghost) \cup Inputs("OddBid", st, ghost) : Apply(m)
ModifyBid               == \E m \in Inputs("Modify", st, ghost) \cup Inputs("OddModify", st, ghost) : Apply(m)
BeginBlock              == \E m \in Inputs("Block", st, ghost) : Apply(m)
Donate                  == \E m \in Inputs("Donate", st, ghost) : Apply(m)
UpdateParams            == \E m \in Inputs("UpdateParams", st, ghost) : Apply(m)
GenesisRoundTrip        == \E m \in Inputs("Genesis", st, ghost) : Apply(m)
Query                   == \E m \in Inputs("Query", st, ghost) : Apply(m)

Next ==
  \/ CreateFixedPriceAuction \/ CreateBatchAuction \/ CancelAuction
  \/ AddAllowedBidders \/ UpdateAllowedBidder \/ MsgAddAllowedBidder
  \/ PlaceBid \/ ModifyBid \/ BeginBlock \/ Donate \/ UpdateParams \/ GenesisRoundTrip \/ Query

Spec == Init /\ [][Next]_vars

(* Generators (tlc -simulate): the kind of the next input is drawn from a weighted bag, *)
(* so that behaviours make progress (blocks, bids) instead of sampling mostly rejected   *)
(* messages; if nothing of that kind is offered any other kind is taken.                 *)
AllKinds == {"CreateFixed", "CreateBatch", "Cancel", "AddAllowed", "UpdateAllowed", "MsgAddAllowed",
             "Bid", "Modify", "Block", "Donate", "UpdateParams", "Genesis", "Query",
             "OddCreate", "OddBid", "OddModify", "OddAllow", "OddCancel"}
GenNext ==
  \* (bound variables are evaluated once; a LET would be re-evaluated at every use, and RandomElement re-drawn)
  \E live \in {{k \in AllKinds : Inputs(k, st, ghost) # {}}} :
    /\ live # {}
    /\ \E pick \in {RandomElement({p \in KindBag : p[1] \in live})} :
         \E m \in {RandomElement(Inputs(pick[1], st, ghost))} : Apply(m)
GenSpec == Init /\ [][GenNext]_vars

(* observation-only variables are not part of the fingerprint *)
View == <<st, ghost>>

----------------------------------------------------------------------------
(* the property clauses on every transition of the design *)
ThisStep == [pre |-> st, act |-> act', res |-> res', post |-> st', xfers |-> xfers',
             hooks |-> hooks', extra |-> extra']
StepHolds(cs) == Fails(ThisStep, ghost, ghost', cs) = {}
AllClauses == [][StepHolds(ClauseIds)]_vars
P_C01 == [][StepHolds(ByProp.C01)]_vars
P_C02 == [][StepHolds(ByProp.C02)]_vars
P_C03 == [][StepHolds(ByProp.C03)]_vars
P_C04 == [][StepHolds(ByProp.C04)]_vars
P_C05 == [][StepHolds(ByProp.C05)]_vars
P_C06 == [][StepHolds(ByProp.C06)]_vars
P_C07 == [][StepHolds(ByProp.C07)]_vars
P_C08 == [][StepHolds(ByProp.C08)]_vars
P_C09 == [][StepHolds(ByProp.C09)]_vars
P_C10 == [][StepHolds(ByProp.C10)]_vars
P_C11 == [][StepHolds(ByProp.C11)]_vars
P_C12 == [][StepHolds(ByProp.C12)]_vars
P_C13 == [][StepHolds(ByProp.C13)]_vars
P_C15 == [][StepHolds(ByProp.C15)]_vars
P_C16 == [][StepHolds(ByProp.C16)]_vars
P_C17 == [][StepHolds(ByProp.C17)]_vars
P_C18 == [][StepHolds(ByProp.C18)]_vars
P_C19 == [][StepHolds(ByProp.C19)]_vars

----------------------------------------------------------------------------
(* sanity: the core never produces a negative balance *)
NoNegative == \A x \in Accts : \A d \in Denoms : st.bal[x][d] >= 0
ModuleInvariantsHold == ModuleInvariantsBroken(st) = <<>>

(* transition coverage: in an exhaustive run (VIEW without hist) every distinct state keeps the    *)
(* input sequence of its first discovery, so printing hist' for every state-changing transition *)
(* yields one input sequence per transition of the explored instance; they are replayed on the  *)
(* real code ("one implementation test per transition of the model")                            *)
(* Rejected inputs (self-loops) are far more numerous; a sample of them (one in RejectSample, 0 = none) is  *)
(* emitted as well, so that "stays rejected" is replayed on the real code too.                            *)
(* "near_miss" (a goal evaluated here because it needs Inputs): a rejected input that differs in exactly one field   *)
(* from an input the specification accepts in the same state -- the rejection hangs on that one precondition alone. *)
NearMiss ==
  /\ ~res'.ok
  /\ act'.a \in AllKinds
  /\ \E m2 \in Inputs(act'.a, st, ghost) :
        /\ DOMAIN m2 = DOMAIN act'
        /\ Cardinality({f \in DOMAIN m2 : m2[f] # act'[f]}) = 1
        /\ Do(st, m2).ok
EmitT ==
  (KeepHist /\ (IF Goals = {} THEN (st' # st \/ (RejectSample > 0 /\ ~res'.ok /\ RandomElement(1..RejectSample) = 1))
                ELSE \/ \E n \in Goals \ {"near_miss"} : Goal(n, ThisStep, ghost)
                     \/ ("near_miss" \in Goals /\ NearMiss)))
     => PrintT("TRACE " \o ToJson(<<InitAct>> \o hist'))

(* generators: write the input history of every behaviour of length GenDepth *)
EmitHist ==
  (KeepHist /\ Len(hist) > 0 /\ (Len(hist) = GenDepth \/ \A k \in AllKinds : Inputs(k, st, ghost) = {})) =>
     JsonSerialize(GenDir \o "/b_" \o ToString(TLCGet("stats").traces) \o ".json", <<InitAct>> \o hist)
=============================================================================
