// fr-replay executes behaviours produced by the TLA+ specification on the real
// application and writes one NDJSON trace line per step.
//
//	fr-replay -out trace.ndjson b_1.json b_2.json ...   (or -dir <dir with *.json>)
package main

import (
	"bufio"
	"encoding/json"
	"flag"
	"fmt"
	"os"
	"path/filepath"
	"sort"
	"strings"

	"verif/harness/internal/fr"
)

func main() {
	out := flag.String("out", "-", "output NDJSON file")
	dir := flag.String("dir", "", "directory with behaviour files (*.json)")
	list := flag.String("list", "", "file with one behaviour file name per line")
	replicas := flag.Int("replicas", 1, "C14: execute every behaviour this many times")
	repOffset := flag.Int("rep-offset", 0, "C14: number the replicas from this offset + 1")
	jsonl := flag.String("jsonl", "", "file with one behaviour (JSON array) per line")
	lastOnly := flag.Bool("last-only", false, "mark every step but the last of a behaviour as judge=false")
	adapter := flag.String("adapter", "keeper", "keeper (message router on a cache branch) or abci (signed transactions, FinalizeBlock)")
	exportGen := flag.String("export-genesis", "", "replay this behaviour (keeper adapter) and print the module genesis, the balances of all model accounts and their addresses")
	addrs := flag.Int("addrs", 0, "print the bech32 addresses of model users u1..uN as JSON and exit")
	flag.Parse()
	if *addrs > 0 {
		json.NewEncoder(os.Stdout).Encode(fr.UserAddrMap(*addrs))
		return
	}
	if *exportGen != "" {
		bz, err := os.ReadFile(*exportGen)
		if err != nil {
			fatal(err)
		}
		base, err := fr.NewBase()
		if err != nil {
			fatal(err)
		}
		out, err := fr.ExportAfter(base, bz)
		if err != nil {
			fatal(err)
		}
		os.Stdout.Write(out)
		return
	}
	files := flag.Args()
	if *list != "" {
		bz, err := os.ReadFile(*list)
		if err != nil {
			fatal(err)
		}
		for _, l := range strings.Split(string(bz), "\n") {
			if strings.TrimSpace(l) != "" {
				files = append(files, strings.TrimSpace(l))
			}
		}
	}
	if *dir != "" {
		m, _ := filepath.Glob(filepath.Join(*dir, "*.json"))
		sort.Strings(m)
		files = append(files, m...)
	}
	w := bufio.NewWriterSize(os.Stdout, 1<<20)
	if *out != "-" {
		f, err := os.Create(*out)
		if err != nil {
			fatal(err)
		}
		defer f.Close()
		w = bufio.NewWriterSize(f, 1<<20)
	}
	defer w.Flush()
	base, err := fr.NewBase()
	if err != nil {
		fatal(err)
	}
	enc := json.NewEncoder(w)
	emit := func(name string, bz []byte) error {
		if *adapter == "abci" {
			return fr.ReplayAbci(name, bz, func(s fr.Step) error { return enc.Encode(s) })
		}
		if !*lastOnly {
			return fr.ReplayReplicas(base, name, bz, *replicas, *repOffset, func(s fr.Step) error { return enc.Encode(s) })
		}
		var buf []fr.Step
		if err := fr.ReplayBehaviour(base, name, bz, func(s fr.Step) error { buf = append(buf, s); return nil }); err != nil {
			return err
		}
		for i := range buf {
			buf[i].Judge = i == len(buf)-1
			if err := enc.Encode(buf[i]); err != nil {
				return err
			}
		}
		return nil
	}
	if *jsonl != "" {
		f, err := os.Open(*jsonl)
		if err != nil {
			fatal(err)
		}
		sc := bufio.NewScanner(f)
		sc.Buffer(make([]byte, 1<<20), 1<<26)
		n := 0
		for sc.Scan() {
			n++
			line := append([]byte{}, sc.Bytes()...)
			if len(line) == 0 {
				continue
			}
			if err := emit(fmt.Sprintf("%s#%d", filepath.Base(*jsonl), n), line); err != nil {
				fatal(fmt.Errorf("%s line %d: %w", *jsonl, n, err))
			}
		}
		f.Close()
	}
	for _, f := range files {
		bz, err := os.ReadFile(f)
		if err != nil {
			fatal(err)
		}
		if err := emit(filepath.Base(f), bz); err != nil {
			fatal(fmt.Errorf("%s: %w", f, err))
		}
	}
}

func fatal(err error) {
	fmt.Fprintln(os.Stderr, "fr-replay:", err)
	os.Exit(2)
}
