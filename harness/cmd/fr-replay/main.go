// fr-replay executes behaviours produced by the TLA+ specification on the real
// application and writes one NDJSON trace line per step.
//
//	fr-replay -out trace.ndjson b_1.json b_2.json ...   (or -dir <dir with *.json>)
package main

import (
	"bufio"
	"encoding/json"
	"flag"
	"fmt"
	"os"
	"path/filepath"
	"sort"
	"strings"

	"verif/harness/internal/fr"
)

func main() {
	out := flag.String("out", "-", "output NDJSON file")
	dir := flag.String("dir", "", "directory with behaviour files (*.json)")
	list := flag.String("list", "", "file with one behaviour file name per line")
	replicas := flag.Int("replicas", 1, "C14: execute every behaviour this many times")
	repOffset := flag.Int("rep-offset", 0, "C14: number the replicas from this offset + 1")
	addrs := flag.Int("addrs", 0, "print the bech32 addresses of model users u1..uN as JSON and exit")
	flag.Parse()
	if *addrs > 0 {
		json.NewEncoder(os.Stdout).Encode(fr.UserAddrMap(*addrs))
		return
	}
	files := flag.Args()
	if *list != "" {
		bz, err := os.ReadFile(*list)
		if err != nil {
			fatal(err)
		}
		for _, l := range strings.Split(string(bz), "\n") {
			if strings.TrimSpace(l) != "" {
				files = append(files, strings.TrimSpace(l))
			}
		}
	}
	if *dir != "" {
		m, _ := filepath.Glob(filepath.Join(*dir, "*.json"))
		sort.Strings(m)
		files = append(files, m...)
	}
	w := bufio.NewWriterSize(os.Stdout, 1<<20)
	if *out != "-" {
		f, err := os.Create(*out)
		if err != nil {
			fatal(err)
		}
		defer f.Close()
		w = bufio.NewWriterSize(f, 1<<20)
	}
	defer w.Flush()
	base, err := fr.NewBase()
	if err != nil {
		fatal(err)
	}
	enc := json.NewEncoder(w)
	for _, f := range files {
		bz, err := os.ReadFile(f)
		if err != nil {
			fatal(err)
		}
		if err := fr.ReplayReplicas(base, filepath.Base(f), bz, *replicas, *repOffset, func(s fr.Step) error { return enc.Encode(s) }); err != nil {
			fatal(fmt.Errorf("%s: %w", f, err))
		}
	}
}

func fatal(err error) {
	fmt.Fprintln(os.Stderr, "fr-replay:", err)
	os.Exit(2)
}
