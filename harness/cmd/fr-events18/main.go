// fr-events18 drives the real keeper with full-width values (18-decimal prices such as
// 0.333333333333333333, 10^-18, 10^18; amounts up to 10^30) and records the arithmetic it can
// observe through balances and stored records.  Each record is checked by Apalache against the
// arithmetic operators of the specification at the real scale D = 10^18 (spec/Events18.tla).
//
//	fr-events18 -n 300 -seed 1 > events.ndjson
package main

import (
	"encoding/json"
	"flag"
	"fmt"
	"math/big"
	"math/rand"
	"os"
	"time"

	"cosmossdk.io/collections"
	sdkmath "cosmossdk.io/math"
	sdk "github.com/cosmos/cosmos-sdk/types"
	minttypes "github.com/cosmos/cosmos-sdk/x/mint/types"

	"github.com/tendermint/fundraising/app"
	"github.com/tendermint/fundraising/testutil/testutil/simapp"
	frkeeper "github.com/tendermint/fundraising/x/fundraising/keeper"
	frtypes "github.com/tendermint/fundraising/x/fundraising/types"
)

type ev struct {
	Op  string   `json:"op"`
	In  []string `json:"in"` // big integers as decimal strings (prices and weights are numerators over 10^18)
	Out []string `json:"out"`
}

var one18 = new(big.Int).Exp(big.NewInt(10), big.NewInt(18), nil)

func decFromNum(n *big.Int) sdkmath.LegacyDec { return sdkmath.LegacyNewDecFromBigIntWithPrec(n, 18) }

func randBig(r *rand.Rand, maxDigits int) *big.Int {
	d := 1 + r.Intn(maxDigits)
	x := big.NewInt(int64(1 + r.Intn(9)))
	for i := 1; i < d; i++ {
		x.Mul(x, big.NewInt(10))
		x.Add(x, big.NewInt(int64(r.Intn(10))))
	}
	return x
}

func randPrice(r *rand.Rand) *big.Int {
	special := []string{"333333333333333333", "1", "1000000000000000000000000000000000000", "666666666666666667", "1000000000000000000",
		"999999999999999999", "1000000000000000001", "142857142857142857", "500000000000000000", "7"}
	if r.Intn(3) == 0 {
		x, _ := new(big.Int).SetString(special[r.Intn(len(special))], 10)
		return x
	}
	return randBig(r, 24)
}

type env struct {
	app *app.App
	ctx sdk.Context
	k   frkeeper.Keeper
	n   int
}

func (e *env) addr(i int) sdk.AccAddress {
	return sdk.AccAddress([]byte(fmt.Sprintf("verif-ev18-addr-%04d", i)))
}

func (e *env) fund(a sdk.AccAddress, coins sdk.Coins) {
	if err := e.app.BankKeeper.MintCoins(e.ctx, minttypes.ModuleName, coins); err != nil {
		panic(err)
	}
	if err := e.app.BankKeeper.SendCoinsFromModuleToAccount(e.ctx, minttypes.ModuleName, a, coins); err != nil {
		panic(err)
	}
}

func (e *env) bal(a sdk.AccAddress, d string) *big.Int {
	return e.app.BankKeeper.GetBalance(e.ctx, a, d).Amount.BigInt()
}

func s(x *big.Int) string { return x.String() }

func main() {
	n := flag.Int("n", 200, "number of scenarios")
	seed := flag.Int64("seed", 1, "seed")
	flag.Parse()
	a, err := simapp.New("verif-ev18")
	if err != nil {
		fmt.Fprintln(os.Stderr, err)
		os.Exit(2)
	}
	t0 := time.Date(2030, 1, 1, 0, 0, 0, 0, time.UTC)
	base := a.BaseApp.NewContext(false).WithBlockTime(t0)
	r := rand.New(rand.NewSource(*seed))
	enc := json.NewEncoder(os.Stdout)
	huge, _ := new(big.Int).SetString("1000000000000000000000000000000000000000000000000000000000000", 10) // 10^60
	for i := 0; i < *n; i++ {
		cctx, _ := base.CacheContext()
		e := &env{app: a, ctx: cctx, k: a.FundraisingKeeper}
		if err := e.k.Params.Set(e.ctx, frtypes.Params{AuctionCreationFee: sdk.Coins{}, PlaceBidFee: sdk.Coins{}, ExtendedPeriod: 1}); err != nil {
			panic(err)
		}
		auctioneer, bidder := e.addr(1), e.addr(2)
		e.fund(auctioneer, sdk.NewCoins(sdk.NewCoin("denoma", sdkmath.NewIntFromBigInt(huge))))
		e.fund(bidder, sdk.NewCoins(sdk.NewCoin("denoma", sdkmath.NewIntFromBigInt(huge)), sdk.NewCoin("denomb", sdkmath.NewIntFromBigInt(huge))))
		p := randPrice(r)
		amt := randBig(r, 30)
		if r.Intn(3) == 0 {
			// quotient amt/p just below an integer (within half a unit of the 18th decimal): p = m + 10^-18, amt = k*m with k < m/2,
			// so that rounding the quotient instead of truncating it would give one coin too many
			m := new(big.Int).Add(randBig(r, 6), big.NewInt(2))
			k := new(big.Int).Add(new(big.Int).Rand(r, new(big.Int).Div(m, big.NewInt(2))), big.NewInt(1))
			if new(big.Int).Mul(k, big.NewInt(2)).Cmp(m) < 0 {
				p = new(big.Int).Add(new(big.Int).Mul(m, one18), big.NewInt(1))
				amt = new(big.Int).Mul(k, m)
			}
		}
		supply := new(big.Int).Exp(big.NewInt(10), big.NewInt(58), nil)
		func() {
			defer func() {
				if rec := recover(); rec != nil {
					enc.Encode(ev{Op: "panic", In: []string{s(p), s(amt)}, Out: []string{fmt.Sprint(rec)}})
				}
			}()
			switch i % 6 {
			case 0, 1: // fixed-price auction: one bid in each denomination, then settlement
				au, err := e.k.CreateFixedPriceAuction(e.ctx, &frtypes.MsgCreateFixedPriceAuction{Auctioneer: auctioneer.String(), StartPrice: decFromNum(p),
					SellingCoin: sdk.NewCoin("denoma", sdkmath.NewIntFromBigInt(supply)), PayingCoinDenom: "denomb", StartTime: t0, EndTime: t0.Add(48 * time.Hour)})
				if err != nil {
					return
				}
				id := au.GetId()
				if err := e.k.AddAllowedBidders(e.ctx, id, []frtypes.AllowedBidder{{AuctionId: id, Bidder: bidder.String(), MaxBidAmount: sdkmath.NewIntFromBigInt(supply)}}); err != nil {
					panic(err)
				}
				denom := "denomb"
				if i%4 == 1 {
					denom = "denoma"
				}
				payBefore := e.bal(bidder, "denomb")
				bid, err := e.k.PlaceBid(e.ctx, &frtypes.MsgPlaceBid{AuctionId: id, Bidder: bidder.String(), BidType: frtypes.BidTypeFixedPrice,
					Price: decFromNum(p), Coin: sdk.NewCoin(denom, sdkmath.NewIntFromBigInt(amt))})
				if err != nil {
					return // e.g. exceeds the remainder: not an arithmetic event
				}
				_ = bid
				au2, _ := e.k.Auction.Get(e.ctx, id)
				rem := au2.(*frtypes.FixedPriceAuction).RemainingSellingCoin.Amount.BigInt()
				sold := new(big.Int).Sub(supply, rem)
				reserved := new(big.Int).Sub(payBefore, e.bal(bidder, "denomb"))
				sellBefore := e.bal(bidder, "denoma")
				if err := e.k.BeginBlocker(e.ctx.WithBlockTime(t0.Add(72 * time.Hour))); err != nil {
					enc.Encode(ev{Op: "block_error", In: []string{s(p), s(amt)}, Out: []string{err.Error()}})
					return
				}
				got := new(big.Int).Sub(e.bal(bidder, "denoma"), sellBefore)
				op := "fixed_pay"
				if denom == "denoma" {
					op = "fixed_sell"
				}
				enc.Encode(ev{Op: op, In: []string{s(amt), s(p)}, Out: []string{s(sold), s(reserved), s(got)}})
			case 2: // batch auction: a worth bid and a quantity bid by two bidders, one modification, settlement
				bidder2 := e.addr(3)
				e.fund(bidder2, sdk.NewCoins(sdk.NewCoin("denomb", sdkmath.NewIntFromBigInt(huge))))
				// every second scenario: the supply is tight and bidder 1 also holds a losing worth bid at a lower price, so that the
				// clearing price stays p and an over-allocation of the winning worth bid is not masked by a failing refund
				var p0, amt0 *big.Int
				qPlan := randBig(r, 20)
				if i%8 == 2 && p.Cmp(big.NewInt(3)) >= 0 {
					tight := new(big.Int).Add(new(big.Int).Add(new(big.Int).Div(new(big.Int).Mul(amt, one18), p), qPlan), big.NewInt(1+int64(r.Intn(2))))
					p0 = new(big.Int).Div(new(big.Int).Add(p, big.NewInt(1)), big.NewInt(2))
					amt0 = new(big.Int).Div(new(big.Int).Mul(p0, tight), one18)
					if amt0.Sign() > 0 && tight.Cmp(new(big.Int).Exp(big.NewInt(10), big.NewInt(57), nil)) < 0 {
						supply = tight
					} else {
						p0, amt0 = nil, nil
					}
				}
				au, err := e.k.CreateBatchAuction(e.ctx, &frtypes.MsgCreateBatchAuction{Auctioneer: auctioneer.String(), StartPrice: decFromNum(p), MinBidPrice: decFromNum(big.NewInt(1)),
					SellingCoin: sdk.NewCoin("denoma", sdkmath.NewIntFromBigInt(supply)), PayingCoinDenom: "denomb", MaxExtendedRound: 0,
					ExtendedRoundRate: sdkmath.LegacyOneDec(), StartTime: t0, EndTime: t0.Add(48 * time.Hour)})
				if err != nil {
					return
				}
				id := au.GetId()
				cap := sdkmath.NewIntFromBigInt(supply)
				if err := e.k.AddAllowedBidders(e.ctx, id, []frtypes.AllowedBidder{{AuctionId: id, Bidder: bidder.String(), MaxBidAmount: cap},
					{AuctionId: id, Bidder: bidder2.String(), MaxBidAmount: cap}}); err != nil {
					panic(err)
				}
				// quantity bid of amt at price p2 >= p by bidder 2, modified once
				p2 := new(big.Int).Add(p, randBig(r, 18))
				q := qPlan
				before2 := e.bal(bidder2, "denomb")
				b2, err := e.k.PlaceBid(e.ctx, &frtypes.MsgPlaceBid{AuctionId: id, Bidder: bidder2.String(), BidType: frtypes.BidTypeBatchMany, Price: decFromNum(p2),
					Coin: sdk.NewCoin("denoma", sdkmath.NewIntFromBigInt(q))})
				if err != nil {
					return
				}
				res1 := new(big.Int).Sub(before2, e.bal(bidder2, "denomb"))
				enc.Encode(ev{Op: "reserve_many", In: []string{s(q), s(p2)}, Out: []string{s(res1)}})
				q3 := new(big.Int).Add(q, randBig(r, 10))
				p3 := new(big.Int).Add(p2, randBig(r, 17))
				if p0 != nil {
					q3 = q // keep the planned quantity when the supply is tight
				}
				if err := e.k.ModifyBid(e.ctx, &frtypes.MsgModifyBid{AuctionId: id, Bidder: bidder2.String(), BidId: b2.Id, Price: decFromNum(p3),
					Coin: sdk.NewCoin("denoma", sdkmath.NewIntFromBigInt(q3))}); err == nil {
					res2 := new(big.Int).Sub(before2, e.bal(bidder2, "denomb"))
					enc.Encode(ev{Op: "modify_many", In: []string{s(q), s(p2), s(q3), s(p3)}, Out: []string{s(new(big.Int).Sub(res2, res1))}})
					q, p2 = q3, p3
				}
				// worth bid of amt paying coins at price p by bidder 1 (the lowest price: it is the clearing price)
				before1 := e.bal(bidder, "denomb")
				if _, err := e.k.PlaceBid(e.ctx, &frtypes.MsgPlaceBid{AuctionId: id, Bidder: bidder.String(), BidType: frtypes.BidTypeBatchWorth, Price: decFromNum(p),
					Coin: sdk.NewCoin("denomb", sdkmath.NewIntFromBigInt(amt))}); err != nil {
					return
				}
				if p0 != nil {
					if _, err := e.k.PlaceBid(e.ctx, &frtypes.MsgPlaceBid{AuctionId: id, Bidder: bidder.String(), BidType: frtypes.BidTypeBatchWorth, Price: decFromNum(p0),
						Coin: sdk.NewCoin("denomb", sdkmath.NewIntFromBigInt(amt0))}); err != nil {
						return
					}
				}
				s1, s2 := e.bal(bidder, "denoma"), e.bal(bidder2, "denoma")
				if err := e.k.BeginBlocker(e.ctx.WithBlockTime(t0.Add(72 * time.Hour))); err != nil {
					enc.Encode(ev{Op: "block_error", In: []string{s(p), s(amt)}, Out: []string{err.Error()}})
					return
				}
				got1 := new(big.Int).Sub(e.bal(bidder, "denoma"), s1)
				got2 := new(big.Int).Sub(e.bal(bidder2, "denoma"), s2)
				paid1 := new(big.Int).Sub(before1, e.bal(bidder, "denomb"))
				paid2 := new(big.Int).Sub(before2, e.bal(bidder2, "denomb"))
				// both bids are priced >= p; with the huge supply the clearing price is p (the lowest bid price)
				enc.Encode(ev{Op: "settle_batch", In: []string{s(amt), s(p), s(q)}, Out: []string{s(got1), s(paid1), s(got2), s(paid2)}})
			case 4, 5: // extension decision at an 18-decimal rate boundary: `last` bids matched at the first end time, `cur` at the second
				last := int64(2 + r.Intn(8))
				cur := int64(1 + r.Intn(int(last)+1)) // 1..last+1
				// the exact fall (last-cur)/last as an 18-decimal number, and its neighbours
				fall := new(big.Int).Div(new(big.Int).Mul(big.NewInt(last-cur), one18), big.NewInt(last))
				rate := new(big.Int).Add(fall, big.NewInt([]int64{1, 1, 0, -1}[r.Intn(4)])) // floor of the fall, or one unit of the 18th decimal around it
				if rate.Sign() <= 0 {
					rate = big.NewInt(1)
				}
				end := t0.Add(24 * time.Hour)
				au, err := e.k.CreateBatchAuction(e.ctx, &frtypes.MsgCreateBatchAuction{Auctioneer: auctioneer.String(), StartPrice: decFromNum(one18), MinBidPrice: decFromNum(one18),
					SellingCoin: sdk.NewCoin("denoma", sdkmath.NewInt(last)), PayingCoinDenom: "denomb", VestingSchedules: nil, MaxExtendedRound: 3,
					ExtendedRoundRate: decFromNum(rate), StartTime: t0, EndTime: end})
				if err != nil {
					return
				}
				id := au.GetId()
				bidder2 := e.addr(3)
				e.fund(bidder2, sdk.NewCoins(sdk.NewCoin("denomb", sdkmath.NewIntFromBigInt(huge))))
				if err := e.k.AddAllowedBidders(e.ctx, id, []frtypes.AllowedBidder{{AuctionId: id, Bidder: bidder.String(), MaxBidAmount: sdkmath.NewInt(last)},
					{AuctionId: id, Bidder: bidder2.String(), MaxBidAmount: sdkmath.NewInt(last)}}); err != nil {
					panic(err)
				}
				one := sdk.NewCoin("denoma", sdkmath.NewInt(1))
				for j := int64(0); j < last; j++ { // `last` unit bids at the floor price: all of them fit the supply of `last` coins
					if _, err := e.k.PlaceBid(e.ctx, &frtypes.MsgPlaceBid{AuctionId: id, Bidder: bidder.String(), BidType: frtypes.BidTypeBatchMany, Price: decFromNum(one18), Coin: one}); err != nil {
						return
					}
				}
				if err := e.k.BeginBlocker(e.ctx.WithBlockTime(end)); err != nil {
					enc.Encode(ev{Op: "block_error", In: []string{s(rate)}, Out: []string{err.Error()}})
					return
				}
				two := new(big.Int).Mul(big.NewInt(2), one18)
				for j := int64(0); j < cur && j < last; j++ { // unit bids at twice the price: the lower price no longer fits, only these match
					if _, err := e.k.PlaceBid(e.ctx, &frtypes.MsgPlaceBid{AuctionId: id, Bidder: bidder2.String(), BidType: frtypes.BidTypeBatchMany, Price: decFromNum(two), Coin: one}); err != nil {
						return
					}
				}
				nowMatched := cur
				if cur > last { // no higher bids at all would leave all `last` matched; model that case as "no fall"
					nowMatched = last
				}
				a1, err := e.k.Auction.Get(e.ctx, id)
				if err != nil {
					panic(err)
				}
				ends := a1.GetEndTimes()
				if len(ends) != 2 {
					enc.Encode(ev{Op: "ext_decision", In: []string{s(big.NewInt(last)), "0", s(rate)}, Out: []string{"-1"}})
					return
				}
				if err := e.k.BeginBlocker(e.ctx.WithBlockTime(ends[1])); err != nil {
					enc.Encode(ev{Op: "block_error", In: []string{s(rate)}, Out: []string{err.Error()}})
					return
				}
				a2, err := e.k.Auction.Get(e.ctx, id)
				if err != nil {
					panic(err)
				}
				ext := "0"
				if a2.GetStatus() == frtypes.AuctionStatusStarted && len(a2.GetEndTimes()) == 3 {
					ext = "1"
				}
				enc.Encode(ev{Op: "ext_decision", In: []string{s(big.NewInt(last)), s(big.NewInt(nowMatched)), s(rate)}, Out: []string{ext}})
			case 3: // vesting split of the proceeds of one fixed-price bid over three instalments
				w1 := randBig(r, 17)
				w2 := randBig(r, 17)
				w3 := new(big.Int).Sub(one18, new(big.Int).Add(w1, w2))
				if w3.Sign() <= 0 {
					return
				}
				end := t0.Add(48 * time.Hour)
				sched := []frtypes.VestingSchedule{{ReleaseTime: end.Add(24 * time.Hour), Weight: decFromNum(w1)}, {ReleaseTime: end.Add(48 * time.Hour), Weight: decFromNum(w2)},
					{ReleaseTime: end.Add(72 * time.Hour), Weight: decFromNum(w3)}}
				au, err := e.k.CreateFixedPriceAuction(e.ctx, &frtypes.MsgCreateFixedPriceAuction{Auctioneer: auctioneer.String(), StartPrice: decFromNum(one18),
					SellingCoin: sdk.NewCoin("denoma", sdkmath.NewIntFromBigInt(supply)), PayingCoinDenom: "denomb", VestingSchedules: sched, StartTime: t0, EndTime: end})
				if err != nil {
					return
				}
				id := au.GetId()
				if err := e.k.AddAllowedBidders(e.ctx, id, []frtypes.AllowedBidder{{AuctionId: id, Bidder: bidder.String(), MaxBidAmount: sdkmath.NewIntFromBigInt(supply)}}); err != nil {
					panic(err)
				}
				if _, err := e.k.PlaceBid(e.ctx, &frtypes.MsgPlaceBid{AuctionId: id, Bidder: bidder.String(), BidType: frtypes.BidTypeFixedPrice, Price: decFromNum(one18),
					Coin: sdk.NewCoin("denomb", sdkmath.NewIntFromBigInt(amt))}); err != nil {
					return
				}
				if err := e.k.BeginBlocker(e.ctx.WithBlockTime(end)); err != nil {
					enc.Encode(ev{Op: "block_error", In: []string{s(amt)}, Out: []string{err.Error()}})
					return
				}
				out := []string{}
				for _, sc := range sched {
					vq, err := e.k.VestingQueue.Get(e.ctx, collections.Join(id, sc.ReleaseTime))
					if err != nil {
						panic(err)
					}
					out = append(out, s(vq.PayingCoin.Amount.BigInt()))
				}
				enc.Encode(ev{Op: "vest", In: []string{s(amt), s(w1), s(w2)}, Out: out})
			}
		}()
	}
}
