package fr

import (
	"encoding/json"
	"fmt"
)

// ReplayBehaviour runs one behaviour (a JSON array of input records starting with Init).
func ReplayBehaviour(b *Base, name string, bz []byte, emit func(Step) error) error {
	var raws []map[string]any
	if err := json.Unmarshal(bz, &raws); err != nil {
		return err
	}
	var acts []Action
	if err := json.Unmarshal(bz, &acts); err != nil {
		return err
	}
	if len(acts) == 0 {
		return fmt.Errorf("empty behaviour")
	}
	env, err := b.NewEnv(acts[0])
	if err != nil {
		return err
	}
	st0, err := env.Project(env.Ctx)
	if err != nil {
		return err
	}
	if err := emit(Step{Trace: name, I: 0, Act: raws[0], Res: Res{Ok: true}, St: st0, Xfers: []Xfer{}, Hooks: []HookCall{},
		Extra: Extra{ValidateOk: true}}); err != nil {
		return err
	}
	for i := 1; i < len(acts); i++ {
		s := env.Exec(acts[i], raws[i])
		s.Trace, s.I = name, i
		if err := emit(s); err != nil {
			return err
		}
	}
	return nil
}
