package fr

import (
	"encoding/json"
	"fmt"
	"time"

	sdk "github.com/cosmos/cosmos-sdk/types"

	fundraising "github.com/tendermint/fundraising/x/fundraising/module"
)

// ReplayBehaviour runs one behaviour (a JSON array of input records starting with Init).
func ReplayBehaviour(b *Base, name string, bz []byte, emit func(Step) error) error {
	return ReplayReplicas(b, name, bz, 1, 0, emit)
}

// ReplayReplicas executes the behaviour k times (C14: every execution starts from the same
// genesis; Go randomises map iteration on every range statement, so replicas inside one process
// already explore different iteration orders) and emits the replicas back to back.
func ReplayReplicas(b *Base, name string, bz []byte, k, repOffset int, emit func(Step) error) error {
	var steps [][]Step
	for r := 0; r < k; r++ {
		var cur []Step
		if err := replayOnce(b, name, bz, k > 1 || repOffset > 0, func(s Step) error { cur = append(cur, s); return nil }); err != nil {
			return err
		}
		steps = append(steps, cur)
	}
	n := len(steps[0])
	for r, cur := range steps {
		if len(cur) != n {
			// a replica of different length is itself a determinism failure: pad by repeating the last line
			for len(cur) < n {
				x := cur[len(cur)-1]
				x.Extra.Note = "replica shorter than replica 1"
				x.Extra.EvHash = "missing"
				cur = append(cur, x)
			}
			cur = cur[:n]
		}
		for _, s := range cur {
			s.Rep, s.Len = r+1+repOffset, n
			if err := emit(s); err != nil {
				return err
			}
		}
	}
	return nil
}

func replayOnce(b *Base, name string, bz []byte, digests bool, emit func(Step) error) error {
	var raws []map[string]any
	if err := json.Unmarshal(bz, &raws); err != nil {
		return err
	}
	var acts []Action
	if err := json.Unmarshal(bz, &acts); err != nil {
		return err
	}
	if len(acts) == 0 {
		return fmt.Errorf("empty behaviour")
	}
	SetTickUnit(acts, raws, bz)
	SetSpelling(acts, raws, bz)
	env, err := b.NewEnv(acts[0])
	if err != nil {
		return err
	}
	env.Digests = digests
	st0, err := env.Project(env.Ctx)
	if err != nil {
		return err
	}
	if err := emit(Step{Trace: name, I: 0, Act: raws[0], Res: Res{Ok: true}, St: st0, Xfers: []Xfer{}, Hooks: []HookCall{},
		Extra: Extra{ValidateOk: true, Answer: []any{}, ModInv: env.ModuleInvariants(env.Ctx)}, Ev: []EventJ{}, Evm: []map[string]any{}, Rep: 1, Judge: true}); err != nil {
		return err
	}
	for i := 1; i < len(acts); i++ {
		// the escrow universe of the specification instance is auction ids 0..NA-1: a creation
		// beyond it (possible only after the code has diverged from the model) ends the trace
		if acts[i].A == "CreateFixed" || acts[i].A == "CreateBatch" {
			if seq, err := env.K.AuctionSeq.Peek(env.Ctx); err != nil || int(seq) >= env.NA {
				break
			}
		}
		s := env.Exec(acts[i], raws[i])
		s.Trace, s.I = name, i
		if err := emit(s); err != nil {
			return err
		}
	}
	return nil
}

// ExportAfter replays a behaviour and returns, as JSON, the module's exported genesis, the model-denom balances of
// every model account (users, escrows, pool) keyed by bech32 address, and the name of every address.
func ExportAfter(b *Base, bz []byte) ([]byte, error) {
	var raws []map[string]any
	var acts []Action
	if err := json.Unmarshal(bz, &raws); err != nil {
		return nil, err
	}
	if err := json.Unmarshal(bz, &acts); err != nil {
		return nil, err
	}
	TickUnit = 24 * time.Hour
	env, err := b.NewEnv(acts[0])
	if err != nil {
		return nil, err
	}
	for i := 1; i < len(acts); i++ {
		s := env.Exec(acts[i], raws[i])
		if !s.Res.Ok {
			return nil, fmt.Errorf("step %d (%s) failed: %s", i, acts[i].A, s.Res.Err)
		}
	}
	gs, err := fundraising.ExportGenesis(env.Ctx, env.K)
	if err != nil {
		return nil, err
	}
	gbz, err := b.App.AppCodec().MarshalJSON(gs)
	if err != nil {
		return nil, err
	}
	bal := map[string]string{}
	for addr := range env.Name {
		a, err := sdk.AccAddressFromBech32(addr)
		if err != nil {
			continue
		}
		coins := sdk.NewCoins()
		for _, d := range ModelDenoms {
			c := b.App.BankKeeper.GetBalance(env.Ctx, a, GoDenom(d))
			if c.Amount.IsPositive() {
				coins = coins.Add(c)
			}
		}
		if !coins.IsZero() {
			bal[addr] = coins.String()
		}
	}
	return json.Marshal(map[string]any{"fundraising": json.RawMessage(gbz), "balances": bal, "names": env.Name})
}
