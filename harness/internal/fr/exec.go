package fr

import (
	"crypto/sha256"
	"encoding/hex"
	"fmt"
	"runtime/debug"
	"sort"
	"strings"
	"time"

	errorsmod "cosmossdk.io/errors"
	sdkmath "cosmossdk.io/math"
	storetypes "cosmossdk.io/store/types"
	sdk "github.com/cosmos/cosmos-sdk/types"
	"github.com/cosmos/cosmos-sdk/types/query"

	frkeeper "github.com/tendermint/fundraising/x/fundraising/keeper"
	fundraising "github.com/tendermint/fundraising/x/fundraising/module"
	frtypes "github.com/tendermint/fundraising/x/fundraising/types"
)

type Xfer struct {
	F string `json:"f"`
	T string `json:"t"`
	D string `json:"d"`
	N int64  `json:"n"`
}

type Res struct {
	Ok  bool   `json:"ok"`
	Err string `json:"err"`
}

type Extra struct {
	Panic      bool   `json:"panic"`
	Nx         int    `json:"nx"`
	ValidateOk bool   `json:"validate_ok"`
	Note       string `json:"note,omitempty"`
	Answer     []any  `json:"answer"` // C16: the answer of a Query step
	Page       PageJ  `json:"page"`   // C16: pagination info of a listing (total count if requested, whether a next page exists)
	// C14: digests of the complete ordered event stream of the step (bank and module events, all
	// attributes) and of the module's raw store plus the account numbers of the model accounts
	EvHash string `json:"evh"`
	StHash string `json:"sth"`
	// the module's own registered invariants (keeper/invariants.go) evaluated on the state after the step: names of the broken ones
	ModInv []string `json:"modinv"`
}

// Step is one line of the recorded trace.
type Step struct {
	Trace string           `json:"trace"`
	I     int              `json:"i"`
	Act   map[string]any   `json:"act"`
	Res   Res              `json:"res"`
	St    State            `json:"st"`
	Xfers []Xfer           `json:"xfers"`
	Hooks []HookCall       `json:"hooks"`
	Extra Extra            `json:"extra"`
	Ev    []EventJ         `json:"ev"`
	Evm   []map[string]any `json:"evm"`   // module events in model terms
	Rep   int              `json:"rep"`   // replica number (C14), 1-based
	Len   int              `json:"len"`   // lines per replica
	Judge bool             `json:"judge"` // false: the monitor only threads its ghost state through this step
}

type PageJ struct {
	Total int64 `json:"total"`
	More  bool  `json:"more"`
}

type EventJ struct {
	Type  string     `json:"type"`
	Attrs [][]string `json:"attrs"`
}

func (e *Env) coin(denom string, amt int64) sdk.Coin {
	return sdk.Coin{Denom: GoDenom(denom), Amount: sdkmath.NewInt(amt)}
}

func (e *Env) sched(s []SchedJ) []frtypes.VestingSchedule {
	out := []frtypes.VestingSchedule{}
	for _, x := range s {
		out = append(out, frtypes.VestingSchedule{ReleaseTime: TickTime(x.T), Weight: e.Dec(x.W)})
	}
	return out
}

func bidType(t string) frtypes.BidType {
	switch t {
	case "F":
		return frtypes.BidTypeFixedPrice
	case "W":
		return frtypes.BidTypeBatchWorth
	case "M":
		return frtypes.BidTypeBatchMany
	}
	return frtypes.BidTypeNil
}

// BuildMsg turns a message-type input into the SDK message.
func (e *Env) BuildMsg(a Action) sdk.Msg {
	switch a.A {
	case "CreateFixed":
		return &frtypes.MsgCreateFixedPriceAuction{Auctioneer: e.spell(a.By, a.Upper), StartPrice: e.Dec(a.Price),
			SellingCoin: e.coin(a.SellDenom, a.SellAmt), PayingCoinDenom: GoDenom(a.PayDenom),
			VestingSchedules: e.sched(a.Sched), StartTime: TickTime(a.Start), EndTime: TickTime(a.End)}
	case "CreateBatch":
		return &frtypes.MsgCreateBatchAuction{Auctioneer: e.spell(a.By, a.Upper), StartPrice: e.Dec(a.Price), MinBidPrice: e.Dec(a.MinPrice),
			SellingCoin: e.coin(a.SellDenom, a.SellAmt), PayingCoinDenom: GoDenom(a.PayDenom),
			VestingSchedules: e.sched(a.Sched), MaxExtendedRound: uint32(a.MaxExt), ExtendedRoundRate: e.Dec(a.Rate),
			StartTime: TickTime(a.Start), EndTime: TickTime(a.End)}
	case "Cancel":
		return &frtypes.MsgCancelAuction{Auctioneer: e.spell(a.By, a.Upper), AuctionId: uint64(a.ID)}
	case "Bid":
		return &frtypes.MsgPlaceBid{AuctionId: uint64(a.ID), Bidder: e.spell(a.By, a.Upper), BidType: bidType(a.Type),
			Price: e.Dec(a.Price), Coin: e.coin(a.Denom, a.Amt)}
	case "Modify":
		return &frtypes.MsgModifyBid{AuctionId: uint64(a.ID), Bidder: e.spell(a.By, a.Upper), BidId: uint64(a.Bid),
			Price: e.Dec(a.Price), Coin: e.coin(a.Denom, a.Amt)}
	case "MsgAddAllowed":
		return &frtypes.MsgAddAllowedBidder{AuctionId: uint64(a.ID),
			AllowedBidder: frtypes.AllowedBidder{AuctionId: uint64(a.ID), Bidder: e.spell(a.By, a.Upper), MaxBidAmount: sdkmath.NewInt(a.Cap)}}
	case "UpdateParams":
		auth := e.AddrStr(a.Auth)
		if a.Auth == "gov" {
			auth = e.Gov
		}
		p := frtypes.Params{ExtendedPeriod: uint32(a.ExtPeriod)}
		if a.CreateFee != nil {
			p.AuctionCreationFee = feeCoins(*a.CreateFee)
		}
		if a.BidFee != nil {
			p.PlaceBidFee = feeCoins(*a.BidFee)
		}
		if !a.Valid { // an invalid coin set: duplicate denominations
			p.PlaceBidFee = sdk.Coins{sdk.NewInt64Coin("denomf", 1), sdk.NewInt64Coin("denomf", 1)}
		}
		return &frtypes.MsgUpdateParams{Authority: auth, Params: p}
	}
	return nil
}

// deliver emulates baseapp.runMsgs for one message: ValidateBasic through the interface
// baseapp uses, then the registered handler on a cache branch that is written only on success.
func (e *Env) deliver(ctx sdk.Context, msg sdk.Msg) error {
	if vb, ok := msg.(sdk.HasValidateBasic); ok {
		if err := vb.ValidateBasic(); err != nil {
			return err
		}
	}
	h := e.B.App.MsgServiceRouter().Handler(msg)
	if h == nil {
		return fmt.Errorf("no handler for %T", msg)
	}
	cctx, write := ctx.CacheContext()
	if e.Lis != nil { // C17: go through a message server wrapping the keeper copy that carries the listeners
		if err := e.deliverLocal(cctx, msg); err != nil {
			return err
		}
		write()
		return nil
	}
	res, err := h(cctx, msg)
	if err != nil {
		return err
	}
	// the router runs the handler under its own event manager and returns the events
	for _, ev := range res.GetEvents() {
		attrs := []sdk.Attribute{}
		for _, at := range ev.Attributes {
			attrs = append(attrs, sdk.NewAttribute(at.Key, at.Value))
		}
		ctx.EventManager().EmitEvent(sdk.NewEvent(ev.Type, attrs...))
	}
	write()
	return nil
}

func (e *Env) deliverLocal(ctx sdk.Context, msg sdk.Msg) error {
	var err error
	switch m := msg.(type) {
	case *frtypes.MsgCreateFixedPriceAuction:
		_, err = e.Msg.CreateFixedPriceAuction(ctx, m)
	case *frtypes.MsgCreateBatchAuction:
		_, err = e.Msg.CreateBatchAuction(ctx, m)
	case *frtypes.MsgCancelAuction:
		_, err = e.Msg.CancelAuction(ctx, m)
	case *frtypes.MsgPlaceBid:
		_, err = e.Msg.PlaceBid(ctx, m)
	case *frtypes.MsgModifyBid:
		_, err = e.Msg.ModifyBid(ctx, m)
	case *frtypes.MsgAddAllowedBidder:
		_, err = e.Msg.AddAllowedBidder(ctx, m)
	case *frtypes.MsgUpdateParams:
		_, err = e.Msg.UpdateParams(ctx, m)
	default:
		err = fmt.Errorf("unknown message %T", msg)
	}
	return err
}

// Exec executes one input on the behaviour's committed context and returns the trace line.
func (e *Env) Exec(a Action, raw map[string]any) (st Step) {
	st = Step{Act: raw, Xfers: []Xfer{}, Hooks: []HookCall{}, Extra: Extra{ValidateOk: true, Answer: []any{}}, Ev: []EventJ{}, Evm: []map[string]any{}, Rep: 1, Judge: true}
	em := sdk.NewEventManager()
	ctx := e.Ctx.WithEventManager(em)
	e.HookLog = nil
	e.armHooks(a)
	var err error
	func() {
		defer func() {
			if r := recover(); r != nil {
				st.Extra.Panic = true
				err = fmt.Errorf("panic: %v", r)
				st.Extra.Note = fmt.Sprintf("%v\n%s", r, firstLines(string(debug.Stack()), 30))
			}
		}()
		switch a.A {
		case "CreateFixed", "CreateBatch", "Cancel", "Bid", "Modify", "MsgAddAllowed", "UpdateParams":
			err = e.deliver(ctx, e.BuildMsg(a))
		case "AddAllowed":
			cctx, write := ctx.CacheContext()
			entries := []frtypes.AllowedBidder{}
			for _, en := range a.Entries {
				entries = append(entries, frtypes.AllowedBidder{AuctionId: uint64(a.ID), Bidder: e.spell(en.U, a.Upper), MaxBidAmount: sdkmath.NewInt(en.Cap)})
			}
			if err = e.K.AddAllowedBidders(cctx, uint64(a.ID), entries); err == nil {
				write()
			}
		case "UpdateAllowed":
			cctx, write := ctx.CacheContext()
			addr, ok := e.Addr[a.U]
			if !ok {
				addr = sdk.AccAddress([]byte("unknown-bidder-addr-"))
			}
			if err = e.K.UpdateAllowedBidder(cctx, uint64(a.ID), addr, sdkmath.NewInt(a.Cap)); err == nil {
				write()
			}
		case "Donate":
			cctx, write := ctx.CacheContext()
			to, ok := e.AcctAddr(a.To)
			from, ok2 := e.Addr[a.By]
			if !ok || !ok2 || a.N <= 0 {
				err = fmt.Errorf("invalid donation")
			} else if err = e.B.App.BankKeeper.SendCoins(cctx, from, to, sdk.NewCoins(e.coin(a.Dn, a.N))); err == nil {
				write()
			}
		case "Block":
			bctx := ctx.WithBlockTime(TickTime(a.T)).WithBlockHeight(ctx.BlockHeight() + 1)
			// dry run: how many non-empty bank transfers does this block make?
			if a.Fault > 0 {
				dctx, _ := bctx.WithEventManager(sdk.NewEventManager()).CacheContext()
				e.B.fault.Armed, e.B.fault.Count = false, 0
				func() {
					defer func() { _ = recover() }()
					_ = e.K.BeginBlocker(dctx)
				}()
				st.Extra.Nx = e.B.fault.Count
				e.HookLog = nil
			}
			cctx, write := bctx.CacheContext()
			e.B.fault.Armed, e.B.fault.Countdown, e.B.fault.Count = a.Fault > 0, int(a.Fault), 0
			err = e.K.BeginBlocker(cctx)
			e.B.fault.Armed = false
			if a.Fault == 0 {
				st.Extra.Nx = e.B.fault.Count
			}
			if err == nil {
				write()
				e.Ctx = bctx.WithEventManager(e.Ctx.EventManager())
			}
		case "Genesis":
			err = e.genesisRoundTrip(ctx, &st)
		case "Query":
			_, a.HasPage = raw["limit"]
			st.Extra.Answer, st.Extra.Page, err = e.query(ctx, a)
		default:
			err = fmt.Errorf("unknown action %q", a.A)
		}
	}()
	e.B.fault.Armed = false
	st.Res.Ok = err == nil
	if err != nil {
		cs, code, _ := errorsmod.ABCIInfo(err, false)
		st.Res.Err = fmt.Sprintf("%s:%d %s", cs, code, firstLines(err.Error(), 1))
	}
	if st.Res.Ok {
		st.Xfers = e.xfers(em.Events())
		st.Ev = moduleEvents(em.Events())
		st.Evm = e.modelEvents(st.Ev)
	}
	if e.Digests {
		st.Extra.EvHash = eventsDigest(em.Events())
		st.Extra.StHash = e.storeDigest(e.Ctx)
	}
	st.Hooks = append(st.Hooks, e.HookLog...)
	s, perr := e.Project(e.Ctx)
	if perr != nil {
		st.Extra.Note += " projection error: " + perr.Error()
	}
	st.St = s
	st.Extra.ModInv = e.ModuleInvariants(e.Ctx)
	return st
}

func firstLines(s string, n int) string {
	l := strings.SplitN(s, "\n", n+1)
	if len(l) > n {
		l = l[:n]
	}
	return strings.Join(l, "\n")
}

// xfers pairs coin_spent / coin_received events into ordered transfers.
func (e *Env) xfers(evs sdk.Events) []Xfer {
	out := []Xfer{}
	spender := ""
	for _, ev := range evs {
		switch ev.Type {
		case "coin_spent":
			for _, at := range ev.Attributes {
				if at.Key == "spender" {
					spender = at.Value
				}
			}
		case "coin_received":
			recv, amt := "", ""
			for _, at := range ev.Attributes {
				if at.Key == "receiver" {
					recv = at.Value
				}
				if at.Key == "amount" {
					amt = at.Value
				}
			}
			if amt == "" {
				continue
			}
			coins, err := sdk.ParseCoinsNormalized(amt)
			if err != nil {
				out = append(out, Xfer{F: e.name(spender), T: e.name(recv), D: amt, N: -1})
				continue
			}
			for _, c := range coins {
				if c.Amount.IsZero() {
					continue
				}
				out = append(out, Xfer{F: e.name(spender), T: e.name(recv), D: ModelDenom(c.Denom), N: c.Amount.Int64()})
			}
		}
	}
	return out
}

func moduleEvents(evs sdk.Events) []EventJ {
	out := []EventJ{}
	for _, ev := range evs {
		switch ev.Type {
		case "coin_spent", "coin_received", "transfer", "message", "coinbase", "burn":
			continue
		}
		j := EventJ{Type: ev.Type}
		for _, at := range ev.Attributes {
			j.Attrs = append(j.Attrs, []string{at.Key, at.Value})
		}
		out = append(out, j)
	}
	return out
}

// genesisRoundTrip exports the module genesis, validates it, wipes the module store and
// imports the export again (module/genesis.go).
func (e *Env) genesisRoundTrip(ctx sdk.Context, st *Step) error {
	gs, err := fundraising.ExportGenesis(ctx, e.K)
	if err != nil {
		return err
	}
	if verr := gs.Validate(); verr != nil {
		st.Extra.ValidateOk = false
		st.Extra.Note = "validate: " + verr.Error()
	}
	cctx, write := ctx.CacheContext()
	store := cctx.KVStore(e.B.App.GetKey(frtypes.StoreKey))
	var keys [][]byte
	it := store.Iterator(nil, nil)
	for ; it.Valid(); it.Next() {
		keys = append(keys, append([]byte{}, it.Key()...))
	}
	it.Close()
	for _, k := range keys {
		store.Delete(k)
	}
	// marshal / unmarshal through JSON like a real export-import does
	bz, err := e.B.App.AppCodec().MarshalJSON(gs)
	if err != nil {
		return err
	}
	var gs2 frtypes.GenesisState
	if err := e.B.App.AppCodec().UnmarshalJSON(bz, &gs2); err != nil {
		return err
	}
	if err := fundraising.InitGenesis(cctx, e.K, gs2); err != nil {
		return err
	}
	write()
	return nil
}

var _ = storetypes.StoreKey(nil)

func eventsDigest(evs sdk.Events) string {
	h := sha256.New()
	for _, ev := range evs {
		h.Write([]byte(ev.Type))
		h.Write([]byte{0})
		for _, at := range ev.Attributes {
			h.Write([]byte(at.Key))
			h.Write([]byte{1})
			h.Write([]byte(at.Value))
			h.Write([]byte{2})
		}
	}
	return hex.EncodeToString(h.Sum(nil))[:16]
}

// storeDigest hashes the module's raw key-value store and the account numbers of every
// model account (accounts are created on first receipt, so creation order is observable).
func (e *Env) storeDigest(ctx sdk.Context) string {
	h := sha256.New()
	store := ctx.KVStore(e.B.App.GetKey(frtypes.StoreKey))
	it := store.Iterator(nil, nil)
	for ; it.Valid(); it.Next() {
		h.Write(it.Key())
		h.Write([]byte{0})
		h.Write(it.Value())
		h.Write([]byte{1})
	}
	it.Close()
	names := make([]string, 0, len(e.Name))
	for addr := range e.Name {
		names = append(names, addr)
	}
	sort.Strings(names)
	for _, a := range names {
		addr, err := sdk.AccAddressFromBech32(a)
		if err != nil {
			continue
		}
		acc := e.B.App.AccountKeeper.GetAccount(ctx, addr)
		if acc == nil {
			h.Write([]byte("-"))
		} else {
			// account numbers relative to the first model user, so that replicas started from
			// different global counters stay comparable
			h.Write([]byte(fmt.Sprintf("%d;", int64(acc.GetAccountNumber())-e.AccBase)))
		}
	}
	return hex.EncodeToString(h.Sum(nil))[:16]
}

// query executes a Query input through the module's query server and returns the answer in the
// shape of the specification's QueryAnswer (a sequence; empty = not found).
func (e *Env) query(ctx sdk.Context, a Action) ([]any, PageJ, error) {
	out, pg, err := e.query0(ctx, a)
	return out, pg, err
}

func (e *Env) query0(ctx sdk.Context, a Action) ([]any, PageJ, error) {
	qs := frkeeper.NewQueryServerImpl(e.K)
	out := []any{}
	pg := PageJ{}
	var preq *query.PageRequest
	if a.HasPage {
		preq = &query.PageRequest{Offset: uint64(a.Offset), Limit: uint64(a.Limit), CountTotal: a.Total}
	}
	pinfo := func(r *query.PageResponse) {
		if r != nil {
			pg = PageJ{Total: int64(r.Total), More: len(r.NextKey) > 0}
		}
	}
	statusName := map[string]string{"": "", "StandBy": frtypes.AuctionStatusStandBy.String(), "Started": frtypes.AuctionStatusStarted.String(),
		"Vesting": frtypes.AuctionStatusVesting.String(), "Finished": frtypes.AuctionStatusFinished.String(), "Cancelled": frtypes.AuctionStatusCancelled.String()}
	typeName := map[string]string{"": "", "F": frtypes.AuctionTypeFixedPrice.String(), "B": frtypes.AuctionTypeBatch.String()}
	st, err := e.Project(ctx)
	if err != nil {
		return out, pg, err
	}
	aucByID := map[int64]AuctionJ{}
	for _, x := range st.Auctions {
		aucByID[x.ID] = x
	}
	switch a.Q {
	case "GetAuction":
		r, err := qs.GetAuction(ctx, &frtypes.QueryGetAuctionRequest{AuctionId: uint64(a.ID)})
		if err != nil {
			return out, pg, err
		}
		au, err := frtypes.UnpackAuction(r.Auction)
		if err != nil {
			return out, pg, err
		}
		out = append(out, aucByID[int64(au.GetId())])
		if int64(au.GetId()) != a.ID {
			out = append(out, "wrong id")
		}
	case "ListAuction":
		r, err := qs.ListAuction(ctx, &frtypes.QueryAllAuctionRequest{Status: statusName[a.Status], Type: typeName[a.Type], Pagination: preq})
		if err != nil {
			return out, pg, err
		}
		pinfo(r.Pagination)
		for _, any := range r.Auction {
			au, err := frtypes.UnpackAuction(any)
			if err != nil {
				return out, pg, err
			}
			out = append(out, aucByID[int64(au.GetId())])
		}
	case "GetBid":
		r, err := qs.GetBid(ctx, &frtypes.QueryGetBidRequest{AuctionId: uint64(a.ID), BidId: uint64(a.Bid)})
		if err != nil {
			return out, pg, err
		}
		b := r.Bid
		out = append(out, BidJ{ID: int64(b.Id), Bidder: e.name(b.Bidder), Type: bidTypeName(b.Type), Price: e.DecNum(b.Price),
			Denom: ModelDenom(b.Coin.Denom), Amt: b.Coin.Amount.Int64(), Matched: b.IsMatched})
		if b.AuctionId != uint64(a.ID) {
			out = append(out, "wrong auction")
		}
	case "ListBid":
		bidder := ""
		if a.Bidder != "" {
			bidder = e.spell(a.Bidder, a.Upper)
		}
		r, err := qs.ListBid(ctx, &frtypes.QueryAllBidRequest{AuctionId: uint64(a.ID), Bidder: bidder, IsMatched: a.Matched, Pagination: preq})
		if err != nil {
			return out, pg, err
		}
		pinfo(r.Pagination)
		for _, b := range r.Bid {
			out = append(out, map[string]any{"aid": int64(b.AuctionId), "id": int64(b.Id)})
		}
	case "ListVestingQueue":
		r, err := qs.ListVestingQueue(ctx, &frtypes.QueryAllVestingQueueRequest{AuctionId: uint64(a.ID), Pagination: preq})
		if err != nil {
			return out, pg, err
		}
		pinfo(r.Pagination)
		for _, q := range r.VestingQueue {
			out = append(out, map[string]any{"aid": int64(q.AuctionId), "t": TimeTick(q.ReleaseTime), "amt": q.PayingCoin.Amount.Int64(), "released": q.Released})
		}
	case "ListAllowedBidder":
		r, err := qs.ListAllowedBidder(ctx, &frtypes.QueryAllAllowedBidderRequest{AuctionId: uint64(a.ID), Pagination: preq})
		if err != nil {
			return out, pg, err
		}
		pinfo(r.Pagination)
		for _, ab := range r.AllowedBidder {
			out = append(out, map[string]any{"aid": int64(ab.AuctionId), "u": e.name(ab.Bidder), "cap": ab.MaxBidAmount.Int64()})
		}
	case "GetAllowedBidder":
		r, err := qs.GetAllowedBidder(ctx, &frtypes.QueryGetAllowedBidderRequest{AuctionId: uint64(a.ID), Bidder: e.spell(a.U, a.Upper)})
		if err != nil {
			return out, pg, err
		}
		ab := r.AllowedBidder
		out = append(out, map[string]any{"aid": int64(ab.AuctionId), "u": e.name(ab.Bidder), "cap": ab.MaxBidAmount.Int64()})
	case "Params":
		r, err := qs.Params(ctx, &frtypes.QueryParamsRequest{})
		if err != nil {
			return out, pg, err
		}
		out = append(out, ParamsJ{CreateFee: e.feeJ(r.Params.AuctionCreationFee), BidFee: e.feeJ(r.Params.PlaceBidFee), ExtPeriod: int64(r.Params.ExtendedPeriod)})
	default:
		return out, pg, fmt.Errorf("unknown query %q", a.Q)
	}
	return out, pg, nil
}

// modelEvents converts the module's own events into the records of the specification's EventsOf.
func (e *Env) modelEvents(evs []EventJ) []map[string]any {
	out := []map[string]any{}
	status := map[string]string{"AUCTION_STATUS_STANDBY": "StandBy", "AUCTION_STATUS_STARTED": "Started", "AUCTION_STATUS_VESTING": "Vesting",
		"AUCTION_STATUS_FINISHED": "Finished", "AUCTION_STATUS_CANCELLED": "Cancelled"}
	num := func(s string) any {
		var n int64
		if _, err := fmt.Sscanf(s, "%d", &n); err != nil {
			return s
		}
		return n
	}
	dec := func(s string) any {
		d, err := sdkmath.LegacyNewDecFromStr(s)
		if err != nil {
			return s
		}
		return e.DecNum(d)
	}
	tick := func(s string) any {
		t, err := time.Parse("2006-01-02 15:04:05 -0700 MST", s)
		if err != nil {
			return s
		}
		return TimeTick(t)
	}
	for _, ev := range evs {
		switch ev.Type {
		case "create_fixed_price_auction", "create_batch_auction", "cancel_auction", "place_bid":
		default:
			continue
		}
		m := map[string]any{"type": ev.Type}
		for _, kv := range ev.Attrs {
			k, v := kv[0], kv[1]
			switch k {
			case "auction_id":
				m["id"] = num(v)
			case "auctioneer_address", "bidder_address":
				m["by"] = e.name(v)
			case "selling_pool_address":
				m["sell"] = e.name(v)
			case "paying_pool_address":
				m["pay"] = e.name(v)
			case "vesting_pool_address":
				m["vest"] = e.name(v)
			case "start_price":
				m["price"] = dec(v)
			case "bid_price":
				m["price"] = dec(v)
			case "min_bid_price":
				m["minPrice"] = dec(v)
			case "extended_round_rate":
				m["rate"] = dec(v)
			case "maximum_extended_round":
				m["maxExt"] = num(v)
			case "selling_coin", "remaining_selling_coin", "bid_coin":
				c, err := sdk.ParseCoinNormalized(v)
				if err != nil {
					m[k] = v
					continue
				}
				switch k {
				case "selling_coin":
					m["sellDenom"], m["sellAmt"] = ModelDenom(c.Denom), c.Amount.Int64()
				case "remaining_selling_coin":
					m["remaining"] = c.Amount.Int64()
				case "bid_coin":
					m["denom"], m["amt"] = ModelDenom(c.Denom), c.Amount.Int64()
				}
			case "paying_coin_denom":
				m["payDenom"] = ModelDenom(v)
			case "start_time":
				m["start"] = tick(v)
			case "end_time":
				m["end"] = tick(v)
			case "auction_status":
				if s, ok := status[v]; ok {
					m["status"] = s
				} else {
					m["status"] = v
				}
			case "msg_index", "mode":
			default:
				m[k] = v
			}
		}
		out = append(out, m)
	}
	return out
}
