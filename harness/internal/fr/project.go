package fr

import (
	"fmt"
	"os"
	"strings"

	sdk "github.com/cosmos/cosmos-sdk/types"

	frkeeper "github.com/tendermint/fundraising/x/fundraising/keeper"
	frtypes "github.com/tendermint/fundraising/x/fundraising/types"
)

// State mirrors the specification's state record field by field.
type State struct {
	Now         int64                       `json:"now"`
	Params      ParamsJ                     `json:"params"`
	Aseq        int64                       `json:"aseq"`
	Auctions    []AuctionJ                  `json:"auctions"`
	Allowed     []map[string]int64          `json:"allowed"`
	Bids        [][]BidJ                    `json:"bids"`
	Bseq        []int64                     `json:"bseq"`
	Vqs         [][]VqJ                     `json:"vqs"`
	LastMatched []int64                     `json:"lastMatched"`
	Bal         map[string]map[string]int64 `json:"bal"`
	Fp          map[string]int64            `json:"fp"`
	Supply      map[string]int64            `json:"supply"`
	SwitchOn    bool                        `json:"switchOn"`
	Nl          int                         `json:"nl"`
}

type AuctionJ struct {
	ID           int64    `json:"id"`
	Type         string   `json:"type"`
	Auctioneer   string   `json:"auctioneer"`
	SellDenom    string   `json:"sellDenom"`
	SellAmt      int64    `json:"sellAmt"`
	PayDenom     string   `json:"payDenom"`
	StartPrice   int64    `json:"startPrice"`
	MinBidPrice  int64    `json:"minBidPrice"`
	Start        int64    `json:"start"`
	Ends         []int64  `json:"ends"`
	Status       string   `json:"status"`
	Remaining    int64    `json:"remaining"`
	MaxExt       int64    `json:"maxExt"`
	ExtRate      int64    `json:"extRate"`
	Sched        []SchedJ `json:"sched"`
	MatchedPrice int64    `json:"matchedPrice"`
}

type BidJ struct {
	ID      int64  `json:"id"`
	Bidder  string `json:"bidder"`
	Type    string `json:"type"`
	Price   int64  `json:"price"`
	Denom   string `json:"denom"`
	Amt     int64  `json:"amt"`
	Matched bool   `json:"matched"`
}

type VqJ struct {
	T        int64 `json:"t"`
	Amt      int64 `json:"amt"`
	Released bool  `json:"released"`
}

func statusName(s frtypes.AuctionStatus) string {
	switch s {
	case frtypes.AuctionStatusStandBy:
		return "StandBy"
	case frtypes.AuctionStatusStarted:
		return "Started"
	case frtypes.AuctionStatusVesting:
		return "Vesting"
	case frtypes.AuctionStatusFinished:
		return "Finished"
	case frtypes.AuctionStatusCancelled:
		return "Cancelled"
	}
	return s.String()
}

func bidTypeName(t frtypes.BidType) string {
	switch t {
	case frtypes.BidTypeFixedPrice:
		return "F"
	case frtypes.BidTypeBatchWorth:
		return "W"
	case frtypes.BidTypeBatchMany:
		return "M"
	}
	return t.String()
}

// name maps an address to the model's account name; the spelling (bech32 is valid in all-lower and in all-upper case) does not matter
func (e *Env) name(addr string) string {
	if n, ok := e.Name[addr]; ok {
		return n
	}
	if n, ok := e.Name[strings.ToLower(addr)]; ok {
		return n
	}
	return addr
}

func (e *Env) feeJ(c sdk.Coins) FeeJ {
	if len(c) == 0 {
		return FeeJ{D: "dF", N: 0}
	}
	return FeeJ{D: ModelDenom(c[0].Denom), N: c[0].Amount.Int64()}
}

// Project reads the whole abstract state back through public API.
func (e *Env) Project(ctx sdk.Context) (State, error) {
	k := e.K
	st := State{Now: TimeTick(ctx.BlockTime()), SwitchOn: frkeeper.EnableAddAllowedBidder, Nl: len(e.Lis),
		Auctions: []AuctionJ{}, Allowed: []map[string]int64{}, Bids: [][]BidJ{}, Bseq: []int64{}, Vqs: [][]VqJ{},
		LastMatched: []int64{}, Bal: map[string]map[string]int64{}, Fp: map[string]int64{}, Supply: map[string]int64{}}
	p, err := k.Params.Get(ctx)
	if err != nil {
		return st, err
	}
	st.Params = ParamsJ{CreateFee: e.feeJ(p.AuctionCreationFee), BidFee: e.feeJ(p.PlaceBidFee), ExtPeriod: int64(p.ExtendedPeriod)}
	seq, err := k.AuctionSeq.Peek(ctx)
	if err != nil {
		return st, err
	}
	st.Aseq = int64(seq)
	auctions, err := k.Auctions(ctx)
	if err != nil {
		return st, err
	}
	for _, a := range auctions {
		aj := AuctionJ{ID: int64(a.GetId()), Auctioneer: e.name(a.GetAuctioneer().String()),
			SellDenom: ModelDenom(a.GetSellingCoin().Denom), SellAmt: a.GetSellingCoin().Amount.Int64(),
			PayDenom: ModelDenom(a.GetPayingCoinDenom()), StartPrice: e.DecNum(a.GetStartPrice()),
			Start: TimeTick(a.GetStartTime()), Ends: []int64{}, Status: statusName(a.GetStatus()), Sched: []SchedJ{}}
		for _, t := range a.GetEndTimes() {
			aj.Ends = append(aj.Ends, TimeTick(t))
		}
		for _, s := range a.GetVestingSchedules() {
			aj.Sched = append(aj.Sched, SchedJ{T: TimeTick(s.ReleaseTime), W: e.DecNum(s.Weight)})
		}
		switch x := a.(type) {
		case *frtypes.FixedPriceAuction:
			aj.Type = "F"
			aj.Remaining = x.RemainingSellingCoin.Amount.Int64()
			if x.RemainingSellingCoin.Denom != a.GetSellingCoin().Denom {
				aj.Remaining = -1
			}
		case *frtypes.BatchAuction:
			aj.Type = "B"
			aj.MinBidPrice = e.DecNum(x.MinBidPrice)
			aj.MaxExt = int64(x.MaxExtendedRound)
			aj.ExtRate = e.DecNum(x.ExtendedRoundRate)
			aj.MatchedPrice = e.DecNum(x.MatchedPrice)
		default:
			aj.Type = fmt.Sprintf("%T", a)
		}
		// the escrow addresses are part of the agreed terms (C19): a record whose stored
		// addresses are not the derived ones is reported through its id field
		id := a.GetId()
		if a.GetSellingReserveAddress().String() != frtypes.SellingReserveAddress(id).String() ||
			a.GetPayingReserveAddress().String() != frtypes.PayingReserveAddress(id).String() ||
			a.GetVestingReserveAddress().String() != frtypes.VestingReserveAddress(id).String() {
			aj.ID = -1000 - int64(id)
		}
		st.Auctions = append(st.Auctions, aj)

		al := map[string]int64{}
		for _, u := range e.Users {
			al[u] = 0
		}
		abs, err := k.GetAllowedBiddersByAuction(ctx, id)
		if err != nil {
			return st, err
		}
		for _, ab := range abs {
			al[e.name(ab.Bidder)] = ab.MaxBidAmount.Int64()
		}
		st.Allowed = append(st.Allowed, al)

		bids, err := k.GetBidsByAuctionId(ctx, id)
		if err != nil {
			return st, err
		}
		bj := []BidJ{}
		for _, b := range bids {
			x := BidJ{ID: int64(b.Id), Bidder: e.name(b.Bidder), Type: bidTypeName(b.Type), Price: e.DecNum(b.Price),
				Denom: ModelDenom(b.Coin.Denom), Amt: b.Coin.Amount.Int64(), Matched: b.IsMatched}
			if b.AuctionId != id {
				x.ID = -1000 - int64(b.Id)
			}
			bj = append(bj, x)
		}
		st.Bids = append(st.Bids, bj)

		bs, err := k.BidSeq.Get(ctx, id)
		if err != nil {
			bs = 0
		}
		st.Bseq = append(st.Bseq, int64(bs))

		vqs, err := k.GetVestingQueuesByAuctionId(ctx, id)
		if err != nil {
			return st, err
		}
		vj := []VqJ{}
		for _, q := range vqs {
			x := VqJ{T: TimeTick(q.ReleaseTime), Amt: q.PayingCoin.Amount.Int64(), Released: q.Released}
			if q.PayingCoin.Denom != a.GetPayingCoinDenom() || q.Auctioneer != a.GetAuctioneer().String() || q.AuctionId != id {
				x.T = -999999
			}
			vj = append(vj, x)
		}
		st.Vqs = append(st.Vqs, vj)

		lm, err := k.GetLastMatchedBidsLen(ctx, id)
		if err != nil {
			return st, err
		}
		st.LastMatched = append(st.LastMatched, lm)
	}

	bk := e.B.App.BankKeeper
	accts := append([]string{}, e.Users...)
	accts = append(accts, "pool")
	for i := 0; i < e.NA; i++ {
		accts = append(accts, fmt.Sprintf("sell.%d", i), fmt.Sprintf("pay.%d", i), fmt.Sprintf("vest.%d", i))
	}
	for _, n := range accts {
		addr, _ := e.AcctAddr(n)
		m := map[string]int64{}
		for _, d := range ModelDenoms {
			m[d] = bk.GetBalance(ctx, addr, GoDenom(d)).Amount.Int64()
		}
		st.Bal[n] = m
	}
	fp, err := e.B.App.DistrKeeper.FeePool.Get(ctx)
	if err != nil {
		return st, err
	}
	for _, d := range ModelDenoms {
		amt := fp.CommunityPool.AmountOf(GoDenom(d))
		if !amt.IsInteger() {
			st.Fp[d] = -1
		} else {
			st.Fp[d] = amt.TruncateInt64()
		}
		st.Supply[d] = bk.GetSupply(ctx, GoDenom(d)).Amount.Int64()
	}
	return st, nil
}

var devNull, _ = os.OpenFile(os.DevNull, os.O_WRONLY, 0)

// ModuleInvariants runs the three invariants the module registers (keeper/invariants.go) on ctx and
// returns the route names of the broken ones, in registration order.  The functions print debug
// lines to os.Stdout, which is the trace stream of fr-replay: it is pointed at /dev/null meanwhile.
func (e *Env) ModuleInvariants(ctx sdk.Context) []string {
	out := []string{}
	saved := os.Stdout
	if devNull != nil {
		os.Stdout = devNull
	}
	defer func() { os.Stdout = saved }()
	for _, x := range []struct {
		name string
		inv  sdk.Invariant
	}{
		{"selling-pool-reserve-amount", frkeeper.SellingPoolReserveAmountInvariant(e.K)},
		{"paying-pool-reserve-amount", frkeeper.PayingPoolReserveAmountInvariant(e.K)},
		{"vesting-pool-reserve-amount", frkeeper.VestingPoolReserveAmountInvariant(e.K)},
	} {
		if _, broken := x.inv(ctx); broken {
			out = append(out, x.name)
		}
	}
	return out
}
