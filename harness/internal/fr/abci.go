package fr

// The abci adapter: the same behaviours, but every message is a signed transaction delivered
// through FinalizeBlock/Commit of an application started from its own genesis (real ante handler,
// real transaction boundary, real FinalizeBlock error), and every block step is a FinalizeBlock
// at the step's time.  Keeper-API steps (allow-list, donations, genesis round trip, queries) run on
// the committed state between blocks.
//
// FinalizeBlock always runs the module's block hook first.  Before a transaction is delivered the
// adapter therefore produces empty blocks at the current time until the state no longer changes
// (recorded as ordinary Block steps), so that the hook inside the transaction's block is a no-op and
// the recorded step is the message alone.

import (
	"context"
	"encoding/json"
	"fmt"
	"math/rand"
	"os"
	"time"

	"cosmossdk.io/log"
	sdkmath "cosmossdk.io/math"
	abci "github.com/cometbft/cometbft/abci/types"
	cmtproto "github.com/cometbft/cometbft/proto/tendermint/types"
	tmtypes "github.com/cometbft/cometbft/types"
	dbm "github.com/cosmos/cosmos-db"
	"github.com/cosmos/cosmos-sdk/baseapp"
	"github.com/cosmos/cosmos-sdk/client"
	"github.com/cosmos/cosmos-sdk/client/flags"
	codectypes "github.com/cosmos/cosmos-sdk/codec/types"
	cryptocodec "github.com/cosmos/cosmos-sdk/crypto/codec"
	"github.com/cosmos/cosmos-sdk/crypto/keys/secp256k1"
	cryptotypes "github.com/cosmos/cosmos-sdk/crypto/types"
	"github.com/cosmos/cosmos-sdk/testutil/mock"
	simtestutil "github.com/cosmos/cosmos-sdk/testutil/sims"
	sdk "github.com/cosmos/cosmos-sdk/types"
	authtx "github.com/cosmos/cosmos-sdk/x/auth/tx"
	authtypes "github.com/cosmos/cosmos-sdk/x/auth/types"
	banktypes "github.com/cosmos/cosmos-sdk/x/bank/types"
	stakingtypes "github.com/cosmos/cosmos-sdk/x/staking/types"

	"github.com/tendermint/fundraising/app"
	frtypes "github.com/tendermint/fundraising/x/fundraising/types"
)

type Abci struct {
	Env      *Env
	App      *app.App
	ChainID  string
	Height   int64
	Now      time.Time
	Privs    map[string]cryptotypes.PrivKey
	TxCfg    client.TxConfig
	rnd      *rand.Rand
	home     string
	Panicked bool // the last block panicked inside FinalizeBlock / ProcessProposal
}

func userKeys(n int) []cryptotypes.PrivKey {
	ks := make([]cryptotypes.PrivKey, n)
	for i := 0; i < n; i++ {
		ks[i] = secp256k1.GenPrivKeyFromSecret([]byte(fmt.Sprintf("verif-user-%d", i)))
	}
	// same order as userAddrs: by bech32 string
	for i := 0; i < n; i++ {
		for j := i + 1; j < n; j++ {
			if sdk.AccAddress(ks[j].PubKey().Address()).String() < sdk.AccAddress(ks[i].PubKey().Address()).String() {
				ks[i], ks[j] = ks[j], ks[i]
			}
		}
	}
	return ks
}

// NewAbci builds an application whose genesis holds the model users (with keys and balances)
// and the behaviour's module parameters.
func NewAbci(init Action) (*Abci, error) {
	if init.A != "Init" {
		return nil, fmt.Errorf("behaviour must start with Init")
	}
	home, err := os.MkdirTemp("", "verif-abci-")
	if err != nil {
		return nil, err
	}
	chainID := "verif-abci"
	a, err := app.New(log.NewNopLogger(), dbm.NewMemDB(), nil, true,
		simtestutil.AppOptionsMap{flags.FlagHome: home}, baseapp.SetChainID(chainID))
	if err != nil {
		return nil, err
	}
	gs := a.DefaultGenesis()
	cdc := a.AppCodec()
	keys := userKeys(len(init.Users))
	privs := map[string]cryptotypes.PrivKey{}
	var accs []authtypes.GenesisAccount
	var bals []banktypes.Balance
	total := sdk.NewCoins()
	for i, u := range init.Users {
		privs[u] = keys[i]
		addr := sdk.AccAddress(keys[i].PubKey().Address())
		accs = append(accs, authtypes.NewBaseAccount(addr, keys[i].PubKey(), uint64(i), 0))
		coins := sdk.NewCoins()
		for d, n := range init.Bal0[u] {
			if n > 0 {
				coins = coins.Add(sdk.NewCoin(GoDenom(d), sdkmath.NewInt(n)))
			}
		}
		if !coins.IsZero() {
			bals = append(bals, banktypes.Balance{Address: addr.String(), Coins: coins})
			total = total.Add(coins...)
		}
	}
	// one bonded validator, delegated to by a dedicated account (as testutil/simapp does)
	privVal := mock.NewPV()
	pubKey, _ := privVal.GetPubKey()
	val := tmtypes.NewValidator(pubKey, 1)
	delKey := secp256k1.GenPrivKeyFromSecret([]byte("verif-delegator"))
	delAddr := sdk.AccAddress(delKey.PubKey().Address())
	accs = append(accs, authtypes.NewBaseAccount(delAddr, delKey.PubKey(), uint64(len(init.Users)), 0))
	gs[authtypes.ModuleName] = cdc.MustMarshalJSON(authtypes.NewGenesisState(authtypes.DefaultParams(), accs))
	pk, _ := cryptocodec.FromCmtPubKeyInterface(val.PubKey)
	pkAny, _ := codectypes.NewAnyWithValue(pk)
	bond := sdk.DefaultPowerReduction
	validator := stakingtypes.Validator{OperatorAddress: sdk.ValAddress(val.Address).String(), ConsensusPubkey: pkAny, Status: stakingtypes.Bonded,
		Tokens: bond, DelegatorShares: sdkmath.LegacyOneDec(), Description: stakingtypes.Description{}, UnbondingTime: time.Unix(0, 0).UTC(),
		Commission: stakingtypes.NewCommission(sdkmath.LegacyZeroDec(), sdkmath.LegacyZeroDec(), sdkmath.LegacyZeroDec()), MinSelfDelegation: sdkmath.ZeroInt()}
	del := stakingtypes.NewDelegation(delAddr.String(), sdk.ValAddress(val.Address).String(), sdkmath.LegacyOneDec())
	gs[stakingtypes.ModuleName] = cdc.MustMarshalJSON(stakingtypes.NewGenesisState(stakingtypes.DefaultParams(), []stakingtypes.Validator{validator}, []stakingtypes.Delegation{del}))
	bondCoins := sdk.NewCoins(sdk.NewCoin(sdk.DefaultBondDenom, bond))
	bals = append(bals, banktypes.Balance{Address: authtypes.NewModuleAddress(stakingtypes.BondedPoolName).String(), Coins: bondCoins})
	total = total.Add(bondCoins...)
	gs[banktypes.ModuleName] = cdc.MustMarshalJSON(banktypes.NewGenesisState(banktypes.DefaultGenesisState().Params, bals, total, []banktypes.Metadata{}, []banktypes.SendEnabled{}))
	frGen := frtypes.DefaultGenesis()
	if init.Params != nil {
		frGen.Params = frtypes.Params{AuctionCreationFee: feeCoins(init.Params.CreateFee), PlaceBidFee: feeCoins(init.Params.BidFee),
			ExtendedPeriod: uint32(init.Params.ExtPeriod)}
	}
	gs[frtypes.ModuleName] = cdc.MustMarshalJSON(frGen)
	stateBytes, err := json.Marshal(gs)
	if err != nil {
		return nil, err
	}
	if _, err := a.InitChain(&abci.RequestInitChain{ChainId: chainID, AppStateBytes: stateBytes, Time: T0,
		ConsensusParams: simtestutil.DefaultConsensusParams, InitialHeight: 1}); err != nil {
		return nil, err
	}
	ab := &Abci{App: a, ChainID: chainID, Height: 0, Now: T0, Privs: privs, rnd: rand.New(rand.NewSource(1)), home: home,
		TxCfg: authtx.NewTxConfig(cdc, authtx.DefaultSignModes)}
	fs := &faultState{}
	a.BankKeeper.AppendSendRestriction(func(_ context.Context, from, to sdk.AccAddress, amt sdk.Coins) (sdk.AccAddress, error) {
		model := false
		for _, c := range amt {
			if _, ok := denomIn[c.Denom]; ok && c.Amount.IsPositive() {
				model = true
			}
		}
		if !model {
			return to, nil
		}
		fs.Count++
		if fs.Armed {
			fs.Countdown--
			if fs.Countdown == 0 {
				return to, fmt.Errorf("verif: injected bank failure")
			}
		}
		return to, nil
	})
	base := &Base{App: a, fault: fs}
	e := &Env{B: base, Users: init.Users, NA: init.NA, D: init.DD, Addr: map[string]sdk.AccAddress{}, Name: map[string]string{}}
	e.K = a.FundraisingKeeper
	for i, u := range init.Users {
		addr := sdk.AccAddress(keys[i].PubKey().Address())
		e.Addr[u] = addr
		e.Name[addr.String()] = u
	}
	e.fillNames()
	ab.Env = e
	// the first block commits genesis
	if err := ab.block(T0, nil, 0, nil); err != nil {
		return nil, err
	}
	return ab, nil
}

func (ab *Abci) Close() { os.RemoveAll(ab.home) }

func (ab *Abci) ctx() sdk.Context {
	return ab.App.BaseApp.NewUncachedContext(false, cmtproto.Header{Height: ab.Height, Time: ab.Now, ChainID: ab.ChainID})
}

// block runs ProcessProposal (which resets the finalize state), FinalizeBlock and, on success, Commit.
func (ab *Abci) block(t time.Time, txs [][]byte, fault int, out **abci.ResponseFinalizeBlock) (err error) {
	// baseapp does not recover a panic of a module's block hook: the node would crash. Record it as a failed block.
	defer func() {
		if r := recover(); r != nil {
			ab.Env.B.fault.Armed = false
			ab.Panicked = true
			err = fmt.Errorf("panic: %v", r)
		}
	}()
	fs := ab.Env.B.fault
	// The application enables optimistic execution: ProcessProposal already starts executing the block in
	// the background and FinalizeBlock then waits for that result, so the fault must be armed beforehand.
	fs.Armed, fs.Countdown, fs.Count = fault > 0, fault, 0
	if _, err := ab.App.ProcessProposal(&abci.RequestProcessProposal{Height: ab.Height + 1, Time: t, Txs: txs}); err != nil {
		fs.Armed = false
		return fmt.Errorf("process proposal: %w", err)
	}
	var resp *abci.ResponseFinalizeBlock
	resp, err = ab.App.FinalizeBlock(&abci.RequestFinalizeBlock{Height: ab.Height + 1, Time: t, Txs: txs})
	if os.Getenv("FR_DEBUG") != "" {
		fmt.Fprintf(os.Stderr, "block h=%d t=%v fault=%d count=%d countdown=%d err=%v\n", ab.Height+1, t, fault, fs.Count, fs.Countdown, err)
	}
	fs.Armed = false
	if err != nil {
		return err
	}
	if _, err := ab.App.Commit(); err != nil {
		return err
	}
	ab.Height++
	ab.Now = t
	if out != nil {
		*out = resp
	}
	return nil
}

func (ab *Abci) sign(by string, msg sdk.Msg) ([]byte, error) {
	priv, ok := ab.Privs[by]
	if !ok {
		return nil, fmt.Errorf("no key for %q", by)
	}
	acc := ab.App.AccountKeeper.GetAccount(ab.ctx(), ab.Env.Addr[by])
	if acc == nil {
		return nil, fmt.Errorf("no account for %q", by)
	}
	tx, err := simtestutil.GenSignedMockTx(ab.rnd, ab.TxCfg, []sdk.Msg{msg}, sdk.NewCoins(), 5_000_000, ab.ChainID,
		[]uint64{acc.GetAccountNumber()}, []uint64{acc.GetSequence()}, priv)
	if err != nil {
		return nil, err
	}
	return ab.TxCfg.TxEncoder()(tx)
}

func abciEvents(evs []abci.Event) sdk.Events {
	out := sdk.Events{}
	for _, ev := range evs {
		attrs := []sdk.Attribute{}
		for _, at := range ev.Attributes {
			attrs = append(attrs, sdk.NewAttribute(at.Key, at.Value))
		}
		out = append(out, sdk.NewEvent(ev.Type, attrs...))
	}
	return out
}

func (e *Env) modelXfers(evs sdk.Events) []Xfer {
	out := []Xfer{}
	for _, x := range e.xfers(evs) {
		if x.D == "dA" || x.D == "dB" || x.D == "dF" {
			out = append(out, x)
		}
	}
	return out
}

func (ab *Abci) line(act map[string]any, ok bool, errs string, evs sdk.Events) Step {
	e := ab.Env
	e.Ctx = ab.ctx()
	st := Step{Act: act, Res: Res{Ok: ok, Err: errs}, Xfers: []Xfer{}, Hooks: []HookCall{}, Extra: Extra{ValidateOk: true, Answer: []any{}},
		Ev: []EventJ{}, Evm: []map[string]any{}, Rep: 1, Judge: true}
	if ok {
		st.Xfers = e.modelXfers(evs)
		st.Evm = e.modelEvents(moduleEvents(evs))
	}
	s, err := e.Project(e.Ctx)
	if err != nil {
		st.Extra.Note = "projection error: " + err.Error()
	}
	st.St = s
	st.Extra.ModInv = e.ModuleInvariants(e.Ctx)
	return st
}

func (ab *Abci) dryRun(t time.Time) (nx int, panicked bool, msg string) {
	e := ab.Env
	fs := e.B.fault
	dctx, _ := ab.ctx().WithBlockTime(t).WithEventManager(sdk.NewEventManager()).CacheContext()
	fs.Armed, fs.Count = false, 0
	func() {
		defer func() {
			if r := recover(); r != nil {
				panicked, msg = true, fmt.Sprint(r)
			}
		}()
		_ = e.K.BeginBlocker(dctx)
	}()
	return fs.Count, panicked, msg
}

// settle produces empty blocks at the current time until the module state stops changing.
func (ab *Abci) settle() ([]Step, error) {
	var steps []Step
	for i := 0; i < 40; i++ {
		before, _ := ab.Env.Project(ab.ctx())
		if _, panicked, perr := ab.dryRun(ab.Now); panicked {
			st := ab.line(map[string]any{"a": "Block", "t": TimeTick(ab.Now), "fault": 0}, false, "panic in the block hook: "+perr, nil)
			st.Extra.Panic = true
			return append(steps, st), fmt.Errorf("block hook panics")
		}
		var resp *abci.ResponseFinalizeBlock
		if err := ab.block(ab.Now, nil, 0, &resp); err != nil {
			steps = append(steps, ab.line(map[string]any{"a": "Block", "t": TimeTick(ab.Now), "fault": 0}, false, err.Error(), nil))
			return steps, nil
		}
		st := ab.line(map[string]any{"a": "Block", "t": TimeTick(ab.Now), "fault": 0}, true, "", abciEvents(resp.Events))
		st.Extra.Nx = len(st.Xfers)
		after := st.St
		if mustJSON(before) == mustJSON(after) {
			return steps, nil // no-op block: not recorded
		}
		steps = append(steps, st)
	}
	return steps, fmt.Errorf("block hook does not reach a fixpoint at a fixed time")
}

// Exec executes one input; it may return several trace lines (the inserted empty blocks first).
func (ab *Abci) Exec(a Action, raw map[string]any) ([]Step, error) {
	e := ab.Env
	switch a.A {
	case "Block":
		t := TickTime(a.T)
		var nx int
		// Dry run of the module's block hook on a discarded cache branch of the committed state: it tells how many model
		// transfers the block makes (a FinalizeBlock cannot be undone: it writes the working hash) and whether the hook
		// panics.  With optimistic execution a panic happens in a background goroutine and kills the process (the node),
		// so a block whose hook panics is recorded as failed with panic=true and is not sent to FinalizeBlock.
		dnx, panicked, perr := ab.dryRun(t)
		if a.Fault > 0 {
			nx = dnx
		}
		if panicked {
			st := ab.line(raw, false, "panic in the block hook: "+perr, nil)
			st.Extra.Panic, st.Extra.Nx = true, nx
			return []Step{st}, nil
		}
		var resp *abci.ResponseFinalizeBlock
		ab.Panicked = false
		err := ab.block(t, nil, int(a.Fault), &resp)
		var st Step
		if err != nil {
			st = ab.line(raw, false, err.Error(), nil)
			st.Extra.Panic = ab.Panicked
		} else {
			st = ab.line(raw, true, "", abciEvents(resp.Events))
			if a.Fault == 0 {
				nx = len(st.Xfers)
			}
		}
		st.Extra.Nx = nx
		return []Step{st}, nil
	case "CreateFixed", "CreateBatch", "Cancel", "Bid", "Modify", "MsgAddAllowed":
		if _, ok := ab.Privs[a.By]; !ok {
			return nil, nil // an unsigned message cannot become a transaction: not part of this adapter's input space
		}
		pre, err := ab.settle()
		if err != nil {
			return pre, err
		}
		bz, err := ab.sign(a.By, e.BuildMsg(a))
		if err != nil {
			return pre, nil // the message cannot be signed (e.g. its signer field is malformed): skipped
		}
		var resp *abci.ResponseFinalizeBlock
		if err := ab.block(ab.Now, [][]byte{bz}, 0, &resp); err != nil {
			return append(pre, ab.line(raw, false, "FinalizeBlock: "+err.Error(), nil)), nil
		}
		r := resp.TxResults[0]
		st := ab.line(raw, r.Code == 0, fmt.Sprintf("%s:%d %s", r.Codespace, r.Code, firstLines(r.Log, 1)), abciEvents(r.Events))
		return append(pre, st), nil
	case "AddAllowed", "UpdateAllowed", "Donate", "Genesis", "Query":
		e.Ctx = ab.ctx()
		st := e.Exec(a, raw)
		e.Ctx = ab.ctx()
		return []Step{st}, nil
	}
	return nil, nil
}

// ReplayAbci runs one behaviour through the abci adapter.
func ReplayAbci(name string, bz []byte, emit func(Step) error) error {
	var raws []map[string]any
	var acts []Action
	if err := json.Unmarshal(bz, &raws); err != nil {
		return err
	}
	if err := json.Unmarshal(bz, &acts); err != nil {
		return err
	}
	ab, err := NewAbci(acts[0])
	if err != nil {
		return err
	}
	defer ab.Close()
	i := 0
	st0 := ab.line(raws[0], true, "", nil)
	st0.Trace, st0.I = name, 0
	if err := emit(st0); err != nil {
		return err
	}
	for k := 1; k < len(acts); k++ {
		if acts[k].A == "CreateFixed" || acts[k].A == "CreateBatch" {
			if seq, err := ab.Env.K.AuctionSeq.Peek(ab.ctx()); err != nil || int(seq) >= ab.Env.NA {
				break
			}
		}
		steps, err := ab.Exec(acts[k], raws[k])
		for _, s := range steps {
			i++
			s.Trace, s.I = name, i
			if e2 := emit(s); e2 != nil {
				return e2
			}
		}
		if err != nil {
			return nil // the behaviour cannot continue (e.g. the block hook panics): the recorded steps end here
		}
	}
	return nil
}
