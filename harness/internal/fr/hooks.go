package fr

// HookCall is one observed listener call (C17).
type HookCall struct {
	H    string         `json:"h"`
	L    int            `json:"l"`
	Args map[string]any `json:"args,omitempty"`
	Seen bool           `json:"seen"`
}

// Listener is installed through the module's InvokeSetHooks (see hooks_install.go).
type Listener struct {
	Idx  int
	Env  *Env
	Fail string // hook name at which this listener returns an error ("" = never)
}

func (e *Env) armHooks(a Action) {
	for _, l := range e.Lis {
		l.Fail = ""
		if a.HookFail != "" && l.Idx == a.HookPos {
			l.Fail = a.HookFail
		}
	}
}
