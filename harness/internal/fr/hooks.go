package fr

import (
	"context"
	"fmt"
	"time"

	"cosmossdk.io/collections"
	sdkmath "cosmossdk.io/math"
	sdk "github.com/cosmos/cosmos-sdk/types"

	frkeeper "github.com/tendermint/fundraising/x/fundraising/keeper"
	fundraising "github.com/tendermint/fundraising/x/fundraising/module"
	frtypes "github.com/tendermint/fundraising/x/fundraising/types"
)

// HookCall is one observed listener call (C17).
type HookCall struct {
	H    string         `json:"h"`
	L    int            `json:"l"`
	Args map[string]any `json:"args"`
	Seen bool           `json:"seen"`
}

// Listener implements types.FundraisingHooks and records every call.
type Listener struct {
	Idx  int
	Env  *Env
	Fail string // hook name at which this listener returns an error ("" = never)
}

var _ frtypes.FundraisingHooks = (*Listener)(nil)

// InstallListeners registers n listeners the way the module does it: through the exported
// InvokeSetHooks on a keeper copy, with module names chosen out of lexical order so that the
// "ordered by module name" rule of module.go is part of what is observed.
func (e *Env) InstallListeners(n int) error {
	if n == 0 {
		return nil
	}
	names := []string{"zz-first-registered", "mm-second", "aa-third", "kk-fourth"}
	m := map[string]frtypes.FundraisingHooks{}
	byName := map[string]*Listener{}
	for i := 0; i < n; i++ {
		l := &Listener{Env: e}
		byName[names[i]] = l
		m[names[i]] = l
	}
	// listener index = position in lexical order of the module names
	sorted := append([]string{}, names[:n]...)
	for i := 0; i < len(sorted); i++ {
		for j := i + 1; j < len(sorted); j++ {
			if sorted[j] < sorted[i] {
				sorted[i], sorted[j] = sorted[j], sorted[i]
			}
		}
	}
	for i, nm := range sorted {
		byName[nm].Idx = i + 1
		e.Lis = append(e.Lis, byName[nm])
	}
	k := e.B.App.FundraisingKeeper // a copy; the application's own keeper has no hooks
	if err := fundraising.InvokeSetHooks(&k, m); err != nil {
		return err
	}
	e.K = k
	e.Msg = frkeeper.NewMsgServerImpl(k)
	return nil
}

func (e *Env) armHooks(a Action) {
	for _, l := range e.Lis {
		l.Fail = ""
		if a.HookFail != "" && l.Idx == a.HookPos {
			l.Fail = a.HookFail
		}
	}
}

func (l *Listener) rec(h string, args map[string]any, seen bool) error {
	l.Env.HookLog = append(l.Env.HookLog, HookCall{H: h, L: l.Idx, Args: args, Seen: seen})
	if l.Fail == h {
		return fmt.Errorf("verif: listener %d vetoes %s", l.Idx, h)
	}
	return nil
}

func (l *Listener) schedJ(s []frtypes.VestingSchedule) []any {
	out := []any{}
	for _, x := range s {
		out = append(out, map[string]any{"t": TimeTick(x.ReleaseTime), "w": l.Env.DecNum(x.Weight)})
	}
	return out
}

func (l *Listener) createArgs(id int64, auctioneer string, price sdkmath.LegacyDec, sell sdk.Coin, pay string,
	sched []frtypes.VestingSchedule, start, end time.Time) map[string]any {
	e := l.Env
	return map[string]any{"id": id, "by": e.name(auctioneer), "price": e.DecNum(price), "sellDenom": ModelDenom(sell.Denom),
		"sellAmt": sell.Amount.Int64(), "payDenom": ModelDenom(pay), "sched": l.schedJ(sched), "start": TimeTick(start), "end": TimeTick(end)}
}

// nextAuctionStored: has the auction that is being announced already been written?
func (l *Listener) newAuctionStored(ctx context.Context) bool {
	seq, err := l.Env.K.AuctionSeq.Peek(ctx)
	if err != nil || seq == 0 {
		return false
	}
	ok, _ := l.Env.K.Auction.Has(ctx, seq-1)
	return ok
}

func (l *Listener) BeforeFixedPriceAuctionCreated(ctx context.Context, auctioneer string, startPrice sdkmath.LegacyDec, sellingCoin sdk.Coin,
	payingCoinDenom string, vs []frtypes.VestingSchedule, startTime, endTime time.Time) error {
	return l.rec("BeforeFixedPriceAuctionCreated", l.createArgs(-1, auctioneer, startPrice, sellingCoin, payingCoinDenom, vs, startTime, endTime),
		l.newAuctionStored(ctx))
}

func (l *Listener) AfterFixedPriceAuctionCreated(ctx context.Context, auctionId uint64, auctioneer string, startPrice sdkmath.LegacyDec,
	sellingCoin sdk.Coin, payingCoinDenom string, vs []frtypes.VestingSchedule, startTime, endTime time.Time) error {
	return l.rec("AfterFixedPriceAuctionCreated", l.createArgs(int64(auctionId), auctioneer, startPrice, sellingCoin, payingCoinDenom, vs, startTime, endTime),
		true)
}

func (l *Listener) BeforeBatchAuctionCreated(ctx context.Context, auctioneer string, startPrice, minBidPrice sdkmath.LegacyDec, sellingCoin sdk.Coin,
	payingCoinDenom string, vs []frtypes.VestingSchedule, maxExtendedRound uint32, extendedRoundRate sdkmath.LegacyDec, startTime, endTime time.Time) error {
	a := l.createArgs(-1, auctioneer, startPrice, sellingCoin, payingCoinDenom, vs, startTime, endTime)
	a["minPrice"], a["maxExt"], a["rate"] = l.Env.DecNum(minBidPrice), int64(maxExtendedRound), l.Env.DecNum(extendedRoundRate)
	return l.rec("BeforeBatchAuctionCreated", a, l.newAuctionStored(ctx))
}

func (l *Listener) AfterBatchAuctionCreated(ctx context.Context, auctionId uint64, auctioneer string, startPrice, minBidPrice sdkmath.LegacyDec,
	sellingCoin sdk.Coin, payingCoinDenom string, vs []frtypes.VestingSchedule, maxExtendedRound uint32, extendedRoundRate sdkmath.LegacyDec,
	startTime, endTime time.Time) error {
	a := l.createArgs(int64(auctionId), auctioneer, startPrice, sellingCoin, payingCoinDenom, vs, startTime, endTime)
	a["minPrice"], a["maxExt"], a["rate"] = l.Env.DecNum(minBidPrice), int64(maxExtendedRound), l.Env.DecNum(extendedRoundRate)
	return l.rec("AfterBatchAuctionCreated", a, true)
}

func (l *Listener) BeforeAuctionCanceled(ctx context.Context, auctionId uint64, auctioneer string) error {
	seen := false
	if a, err := l.Env.K.Auction.Get(ctx, auctionId); err == nil {
		seen = a.GetStatus() == frtypes.AuctionStatusCancelled
	}
	return l.rec("BeforeAuctionCanceled", map[string]any{"id": int64(auctionId), "by": l.Env.name(auctioneer)}, seen)
}

func (l *Listener) bidArgs(auctionId, bidId uint64, bidder string, bidType frtypes.BidType, price sdkmath.LegacyDec, coin sdk.Coin) map[string]any {
	return map[string]any{"id": int64(auctionId), "bid": int64(bidId), "by": l.Env.name(bidder), "type": bidTypeName(bidType),
		"price": l.Env.DecNum(price), "denom": ModelDenom(coin.Denom), "amt": coin.Amount.Int64()}
}

func (l *Listener) BeforeBidPlaced(ctx context.Context, auctionId, bidId uint64, bidder string, bidType frtypes.BidType, price sdkmath.LegacyDec, coin sdk.Coin) error {
	seen, _ := l.Env.K.Bid.Has(ctx, collections.Join(auctionId, bidId))
	return l.rec("BeforeBidPlaced", l.bidArgs(auctionId, bidId, bidder, bidType, price, coin), seen)
}

func (l *Listener) BeforeBidModified(ctx context.Context, auctionId, bidId uint64, bidder string, bidType frtypes.BidType, price sdkmath.LegacyDec, coin sdk.Coin) error {
	seen := false
	if b, err := l.Env.K.Bid.Get(ctx, collections.Join(auctionId, bidId)); err == nil {
		seen = b.Price.Equal(price) && b.Coin.IsEqual(coin)
	}
	return l.rec("BeforeBidModified", l.bidArgs(auctionId, bidId, bidder, bidType, price, coin), seen)
}

func (l *Listener) BeforeAllowedBiddersAdded(ctx context.Context, abs []frtypes.AllowedBidder) error {
	entries := []any{}
	seen := false
	for _, ab := range abs {
		entries = append(entries, map[string]any{"id": int64(ab.AuctionId), "u": l.Env.name(ab.Bidder), "cap": ab.MaxBidAmount.Int64()})
		if addr, err := sdk.AccAddressFromBech32(ab.Bidder); err == nil {
			cur, err := l.Env.K.AllowedBidder.Get(ctx, collections.Join(ab.AuctionId, addr))
			before := l.Env.preCap(ab.AuctionId, l.Env.name(ab.Bidder))
			if err == nil && cur.MaxBidAmount.Int64() != before {
				seen = true
			}
		}
	}
	return l.rec("BeforeAllowedBiddersAdded", map[string]any{"entries": entries}, seen)
}

func (l *Listener) BeforeAllowedBidderUpdated(ctx context.Context, auctionId uint64, bidder sdk.AccAddress, maxBidAmount sdkmath.Int) error {
	seen := false
	if cur, err := l.Env.K.AllowedBidder.Get(ctx, collections.Join(auctionId, bidder)); err == nil {
		seen = cur.MaxBidAmount.Int64() != l.Env.preCap(auctionId, l.Env.name(bidder.String()))
	}
	return l.rec("BeforeAllowedBidderUpdated", map[string]any{"id": int64(auctionId), "u": l.Env.name(bidder.String()), "cap": maxBidAmount.Int64()}, seen)
}

func (l *Listener) BeforeSellingCoinsAllocated(ctx context.Context, auctionId uint64, allocationMap, refundMap map[string]sdkmath.Int) error {
	e := l.Env
	toModel := func(m map[string]sdkmath.Int) map[string]any {
		out := map[string]any{}
		for _, u := range e.Users {
			out[u] = int64(0)
		}
		for k, v := range m {
			out[e.name(k)] = v.Int64()
		}
		return out
	}
	seen := false
	if a, err := e.K.Auction.Get(ctx, auctionId); err == nil {
		bal := e.B.App.BankKeeper.GetBalance(ctx, a.GetSellingReserveAddress(), a.GetSellingCoin().Denom).Amount.Int64()
		seen = a.GetStatus() != frtypes.AuctionStatusStarted || bal != e.preSellBal(auctionId)
	}
	return l.rec("BeforeSellingCoinsAllocated", map[string]any{"id": int64(auctionId), "alloc": toModel(allocationMap), "refund": toModel(refundMap)}, seen)
}

// preCap / preSellBal read the state before the step (the behaviour's committed context).
func (e *Env) preCap(auctionId uint64, user string) int64 {
	addr, ok := e.Addr[user]
	if !ok {
		return 0
	}
	ab, err := e.K.AllowedBidder.Get(e.Ctx, collections.Join(auctionId, addr))
	if err != nil {
		return 0
	}
	return ab.MaxBidAmount.Int64()
}

func (e *Env) preSellBal(auctionId uint64) int64 {
	a, err := e.K.Auction.Get(e.Ctx, auctionId)
	if err != nil {
		return 0
	}
	return e.B.App.BankKeeper.GetBalance(e.Ctx, a.GetSellingReserveAddress(), a.GetSellingCoin().Denom).Amount.Int64()
}
