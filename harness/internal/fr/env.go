// Package fr drives the real fundraising application (built from /repo's working
// tree through the `replace` directive in go.mod) with input records produced by
// the TLA+ specification and projects the observable state back into the shape of
// the specification's state record (spec/Fundraising.tla, InitState).
package fr

import (
	"context"
	"encoding/json"
	"fmt"
	"hash/fnv"
	"sort"
	"strings"
	"time"

	sdkmath "cosmossdk.io/math"
	"github.com/cosmos/cosmos-sdk/crypto/keys/secp256k1"
	sdk "github.com/cosmos/cosmos-sdk/types"
	authtypes "github.com/cosmos/cosmos-sdk/x/auth/types"
	distrtypes "github.com/cosmos/cosmos-sdk/x/distribution/types"
	govtypes "github.com/cosmos/cosmos-sdk/x/gov/types"
	minttypes "github.com/cosmos/cosmos-sdk/x/mint/types"

	"github.com/tendermint/fundraising/app"
	"github.com/tendermint/fundraising/testutil/testutil/simapp"
	frkeeper "github.com/tendermint/fundraising/x/fundraising/keeper"
	frtypes "github.com/tendermint/fundraising/x/fundraising/types"
)

// T0 is tick 0 of the specification; one tick is one day.
var T0 = time.Date(2030, 1, 1, 0, 0, 0, 0, time.UTC)

// TickUnit is the duration of one tick in the behaviour being replayed.  The module compares times only by
// order, except for the extension period (whole days): a behaviour in which no auction can be extended may
// therefore be replayed on a sub-second grid (Init field "tickMs"), where release and end times that differ
// by a tick still fall into the same second.
var TickUnit = 24 * time.Hour

func TickTime(t int64) time.Time {
	if TickUnit == 24*time.Hour { // no time.Duration arithmetic: it overflows beyond 106751 days
		return T0.AddDate(0, 0, int(t))
	}
	return T0.Add(time.Duration(t) * TickUnit)
}

func TimeTick(t time.Time) int64 {
	if TickUnit == 24*time.Hour {
		s := t.Unix() - T0.Unix()
		if s%86400 != 0 || t.Nanosecond() != 0 {
			return -999999
		}
		return s / 86400
	}
	d := t.Sub(T0)
	if d%TickUnit != 0 {
		return -999999
	}
	return int64(d / TickUnit)
}

// SetTickUnit chooses the tick unit of a behaviour: the one its Init line asks for, else 250 ms for every
// third behaviour (by content hash, so that replicas and adapters agree) without extension rounds, else a day.
func SetTickUnit(acts []Action, raws []map[string]any, bz []byte) {
	TickUnit = 24 * time.Hour
	if len(acts) == 0 {
		return
	}
	if acts[0].TickMs > 0 {
		TickUnit = time.Duration(acts[0].TickMs) * time.Millisecond
		return
	}
	for _, a := range acts {
		if a.A == "CreateBatch" && a.MaxExt > 0 {
			return
		}
	}
	h := fnv.New32a()
	h.Write(bz)
	if h.Sum32()%3 == 0 {
		TickUnit = 250 * time.Millisecond
		raws[0]["tickMs"] = 250
	}
}

var denomOut = map[string]string{"dA": "denoma", "dB": "denomb", "dF": "denomf"}
var denomIn = map[string]string{"denoma": "dA", "denomb": "dB", "denomf": "dF"}
var ModelDenoms = []string{"dA", "dB", "dF"}

// GoDenom maps a model denomination to the SDK one; anything unknown becomes an
// invalid denomination (the model's "bad").
func GoDenom(d string) string {
	if g, ok := denomOut[d]; ok {
		return g
	}
	return "!!"
}

func ModelDenom(d string) string {
	if m, ok := denomIn[d]; ok {
		return m
	}
	return d
}

// Fault is the process-wide send restriction state: when Countdown reaches zero on a
// non-empty transfer, that transfer fails.  Count counts non-empty transfers.
type faultState struct {
	Armed     bool
	Countdown int
	Count     int
}

// Base is one application instance; behaviours run on cache branches of its context.
type Base struct {
	App   *app.App
	Ctx   sdk.Context
	fault *faultState
}

func NewBase() (*Base, error) {
	a, err := simapp.New("verif-chain")
	if err != nil {
		return nil, err
	}
	ctx := a.BaseApp.NewContext(false).WithBlockTime(T0).WithBlockHeight(1)
	fs := &faultState{}
	a.BankKeeper.AppendSendRestriction(func(_ context.Context, from, to sdk.AccAddress, amt sdk.Coins) (sdk.AccAddress, error) {
		if amt.IsZero() {
			return to, nil
		}
		fs.Count++
		if fs.Armed {
			fs.Countdown--
			if fs.Countdown == 0 {
				return to, fmt.Errorf("verif: injected bank failure")
			}
		}
		return to, nil
	})
	return &Base{App: a, Ctx: ctx, fault: fs}, nil
}

// Env is one behaviour in progress.
type Env struct {
	B       *Base
	Ctx     sdk.Context // committed state of this behaviour (a cache branch of B.Ctx)
	Users   []string    // model names in address order
	Addr    map[string]sdk.AccAddress
	Name    map[string]string // bech32 -> model account name
	NA      int
	D       int64
	Pool    sdk.AccAddress
	Gov     string
	K       frkeeper.Keeper
	Msg     frtypes.MsgServer
	Digests bool        // C14: record event / store digests
	AccBase int64       // account number of the first funded user
	Lis     []*Listener // C17 listeners (nil unless installed)
	HookLog []HookCall
}

type FeeJ struct {
	D string `json:"d"`
	N int64  `json:"n"`
}

type ParamsJ struct {
	CreateFee FeeJ  `json:"createFee"`
	BidFee    FeeJ  `json:"bidFee"`
	ExtPeriod int64 `json:"extPeriod"`
}

// Action is the union of all input records of the specification.
type Action struct {
	A string `json:"a"`
	// Init
	Users     []string                    `json:"users,omitempty"`
	NA        int                         `json:"na,omitempty"`
	DD        int64                       `json:"grid,omitempty"`
	Bal0      map[string]map[string]int64 `json:"bal0,omitempty"`
	Params    *ParamsJ                    `json:"params,omitempty"`
	Listeners int                         `json:"listeners,omitempty"`
	TickMs    int64                       `json:"tickMs,omitempty"`
	Upper     bool                        `json:"upper,omitempty"` // messages and queries: the account address is spelled in upper case
	// messages
	By        string   `json:"by,omitempty"`
	Price     int64    `json:"price,omitempty"`
	MinPrice  int64    `json:"minPrice,omitempty"`
	SellDenom string   `json:"sellDenom,omitempty"`
	SellAmt   int64    `json:"sellAmt,omitempty"`
	PayDenom  string   `json:"payDenom,omitempty"`
	Start     int64    `json:"start,omitempty"`
	End       int64    `json:"end,omitempty"`
	Sched     []SchedJ `json:"sched,omitempty"`
	MaxExt    int64    `json:"maxExt,omitempty"`
	Rate      int64    `json:"rate,omitempty"`
	ID        int64    `json:"id,omitempty"`
	Entries   []EntryJ `json:"entries,omitempty"`
	U         string   `json:"u,omitempty"`
	Cap       int64    `json:"cap,omitempty"`
	Type      string   `json:"type,omitempty"`
	Denom     string   `json:"denom,omitempty"`
	Amt       int64    `json:"amt,omitempty"`
	Bid       int64    `json:"bid,omitempty"`
	T         int64    `json:"t,omitempty"`
	Fault     int64    `json:"fault,omitempty"`
	To        string   `json:"to,omitempty"`
	Dn        string   `json:"d,omitempty"`
	N         int64    `json:"n,omitempty"`
	Auth      string   `json:"auth,omitempty"`
	Valid     bool     `json:"valid,omitempty"`
	CreateFee *FeeJ    `json:"createFee,omitempty"`
	BidFee    *FeeJ    `json:"bidFee,omitempty"`
	ExtPeriod int64    `json:"extPeriod,omitempty"`
	// Query
	Q       string `json:"q,omitempty"`
	Status  string `json:"status,omitempty"`
	Bidder  string `json:"bidder,omitempty"`
	Matched string `json:"matched,omitempty"`
	Limit   int64  `json:"limit,omitempty"`
	Offset  int64  `json:"offset,omitempty"`
	Total   bool   `json:"total,omitempty"`
	HasPage bool   `json:"-"`
	// C17: which listener fails at which hook ("" = none)
	HookFail string `json:"hookFail,omitempty"`
	HookPos  int    `json:"hookPos,omitempty"`
}

type SchedJ struct {
	T int64 `json:"t"`
	W int64 `json:"w"`
}
type EntryJ struct {
	U   string `json:"u"`
	Cap int64  `json:"cap"`
}

// userKeys derives n deterministic addresses and returns them sorted by bech32 string,
// so that the model's user order (u1 < u2 < ...) is the order sort.Strings gives the
// real addresses (the settlement loops sort bidders that way).
func userAddrs(n int) []sdk.AccAddress {
	addrs := make([]sdk.AccAddress, n)
	for i := 0; i < n; i++ {
		pk := secp256k1.GenPrivKeyFromSecret([]byte(fmt.Sprintf("verif-user-%d", i)))
		addrs[i] = sdk.AccAddress(pk.PubKey().Address())
	}
	sort.Slice(addrs, func(i, j int) bool { return addrs[i].String() < addrs[j].String() })
	return addrs
}

// UserAddrMap returns the addresses of the model users u1..un.
func UserAddrMap(n int) map[string]string {
	out := map[string]string{}
	for i, a := range userAddrs(n) {
		out[fmt.Sprintf("u%d", i+1)] = a.String()
	}
	return out
}

// NewEnv starts a behaviour from its Init record.
func (b *Base) NewEnv(init Action) (*Env, error) {
	if init.A != "Init" {
		return nil, fmt.Errorf("behaviour must start with Init, got %q", init.A)
	}
	cctx, _ := b.Ctx.CacheContext()
	e := &Env{B: b, Ctx: cctx.WithBlockTime(T0), Users: init.Users, NA: init.NA, D: init.DD,
		Addr: map[string]sdk.AccAddress{}, Name: map[string]string{}}
	e.K = b.App.FundraisingKeeper
	e.Msg = frkeeper.NewMsgServerImpl(e.K)
	addrs := userAddrs(len(init.Users))
	for i, u := range init.Users {
		e.Addr[u] = addrs[i]
		e.Name[addrs[i].String()] = u
	}
	e.fillNames()
	// parameters
	if init.Params != nil {
		p := frtypes.Params{AuctionCreationFee: feeCoins(init.Params.CreateFee), PlaceBidFee: feeCoins(init.Params.BidFee),
			ExtendedPeriod: uint32(init.Params.ExtPeriod)}
		if err := e.K.Params.Set(e.Ctx, p); err != nil {
			return nil, err
		}
	}
	// balances
	for _, u := range init.Users {
		coins := sdk.NewCoins()
		for d, n := range init.Bal0[u] {
			if n > 0 {
				coins = coins.Add(sdk.NewCoin(GoDenom(d), sdkmath.NewInt(n)))
			}
		}
		if coins.IsZero() {
			continue
		}
		if err := b.App.BankKeeper.MintCoins(e.Ctx, minttypes.ModuleName, coins); err != nil {
			return nil, err
		}
		if err := b.App.BankKeeper.SendCoinsFromModuleToAccount(e.Ctx, minttypes.ModuleName, e.Addr[u], coins); err != nil {
			return nil, err
		}
	}
	if err := e.InstallListeners(init.Listeners); err != nil {
		return nil, err
	}
	if len(init.Users) > 0 {
		if acc := b.App.AccountKeeper.GetAccount(e.Ctx, e.Addr[init.Users[0]]); acc != nil {
			e.AccBase = int64(acc.GetAccountNumber())
		}
	}
	return e, nil
}

func feeCoins(f FeeJ) sdk.Coins {
	if f.N <= 0 {
		return sdk.Coins{}
	}
	return sdk.NewCoins(sdk.NewCoin(GoDenom(f.D), sdkmath.NewInt(f.N)))
}

// fillNames registers the pool, the authority and the escrow accounts of auction ids 0..NA-1.
func (e *Env) fillNames() {
	e.Pool = authtypes.NewModuleAddress(distrtypes.ModuleName)
	e.Name[e.Pool.String()] = "pool"
	e.Gov = authtypes.NewModuleAddress(govtypes.ModuleName).String()
	for i := 0; i < e.NA; i++ {
		e.Name[frtypes.SellingReserveAddress(uint64(i)).String()] = fmt.Sprintf("sell.%d", i)
		e.Name[frtypes.PayingReserveAddress(uint64(i)).String()] = fmt.Sprintf("pay.%d", i)
		e.Name[frtypes.VestingReserveAddress(uint64(i)).String()] = fmt.Sprintf("vest.%d", i)
	}
}

// AddrStr returns the bech32 string for a model user; unknown names give an invalid address.
// spell returns the address of a user as a message carries it: bech32 in lower case, or -- equally valid, and the
// same account -- in upper case.
func (e *Env) spell(u string, upper bool) string {
	s := e.AddrStr(u)
	if upper && s != "not-an-address" {
		return strings.ToUpper(s)
	}
	return s
}

// SetSpelling marks, in every third behaviour (by content hash), every second message or query as carrying its
// account address in upper-case bech32 (Action.Upper, recorded in the trace).  The spelling of an address is not
// part of any property: the specification ignores the field, so the verdicts must be the same.
func SetSpelling(acts []Action, raws []map[string]any, bz []byte) {
	h := fnv.New32a()
	h.Write(bz)
	x := h.Sum32()
	if x%3 != 1 {
		return
	}
	for i := range acts {
		switch acts[i].A {
		case "CreateFixed", "CreateBatch", "Cancel", "Bid", "Modify", "MsgAddAllowed", "AddAllowed", "Query":
			if (int(x>>8)+i)%2 == 0 && !acts[i].Upper {
				acts[i].Upper = true
				raws[i]["upper"] = true
			}
		}
	}
}

func (e *Env) AddrStr(u string) string {
	if a, ok := e.Addr[u]; ok {
		return a.String()
	}
	return "not-an-address"
}

// AcctAddr resolves a model account name (user, pool, escrow).
func (e *Env) AcctAddr(name string) (sdk.AccAddress, bool) {
	if a, ok := e.Addr[name]; ok {
		return a, true
	}
	if name == "pool" {
		return e.Pool, true
	}
	var kind string
	var id uint64
	for _, k := range []string{"sell", "pay", "vest"} {
		var n uint64
		if c, _ := fmt.Sscanf(name, k+".%d", &n); c == 1 {
			kind, id = k, n
		}
	}
	switch kind {
	case "sell":
		return frtypes.SellingReserveAddress(id), true
	case "pay":
		return frtypes.PayingReserveAddress(id), true
	case "vest":
		return frtypes.VestingReserveAddress(id), true
	}
	return nil, false
}

func (e *Env) Dec(n int64) sdkmath.LegacyDec {
	return sdkmath.LegacyNewDec(n).QuoInt64(e.D)
}

// DecNum returns the numerator over D of a Dec, or -1 if the value is off the grid.
func (e *Env) DecNum(d sdkmath.LegacyDec) int64 {
	if d.IsNil() {
		return -2
	}
	x := d.MulInt64(e.D)
	if !x.IsInteger() || !x.TruncateInt().IsInt64() {
		return -1
	}
	return x.TruncateInt64()
}

func mustJSON(v any) string {
	b, err := json.Marshal(v)
	if err != nil {
		panic(err)
	}
	return string(b)
}
